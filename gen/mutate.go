package gen

import (
	"pgregory.net/rapid"

	m "verif/model"
	"verif/ref"
)

// OvPool: candidate overloads of the name "ov" (all return a marker string
// that reveals which overload ran, except the result-only-variable one).
func OvPool() []ref.FunSig {
	a, b := m.Var("a"), m.Var("b")
	mk := func(i int, ret *m.Type, ps ...*m.Type) ref.FunSig {
		return ref.FunSig{Name: "ov", Params: ps, Ret: ret, Impl: "ov#" + string(rune('A'+i))} // markers ov#A, ov#B, ...
	}
	wh := m.Obj(m.Field{Name: "w", T: m.Num}, m.Field{Name: "h", T: m.Num})
	hw := m.Obj(m.Field{Name: "h", T: m.Num}, m.Field{Name: "w", T: m.Num})
	return []ref.FunSig{
		mk(0, m.Str, m.Num),
		mk(1, m.Str, a),
		mk(2, m.Str, m.List(a)),
		mk(3, m.Str, m.List(m.Num)),
		mk(4, m.Str, m.List(a), a),
		mk(5, m.Str, m.List(m.Num), m.Num),
		mk(6, m.Str, a, a),
		mk(7, m.Str, wh),
		mk(8, m.Str, hw),
		mk(9, m.Str, m.Map(m.Str, m.List(a)), m.List(a)),
		mk(10, b, a),
		mk(11, m.Str, m.List(m.Num), a),
		mk(12, m.Str, m.List(a), m.Num),
		mk(13, m.Str, m.Maybe(a), a),
		mk(14, m.Str, a, m.Str),
		mk(15, m.Str, m.Str, m.Str),
		// polymorphic overloads whose parameters CONTAIN object types (field order of the argument is free)
		mk(16, m.Str, m.Obj(m.Field{Name: "x", T: a}, m.Field{Name: "y", T: m.Num})),
		mk(17, m.Str, m.List(m.Obj(m.Field{Name: "x", T: a}, m.Field{Name: "y", T: m.Num}, m.Field{Name: "z", T: m.Str})), a),
		mk(18, m.Str, m.Obj(m.Field{Name: "p", T: m.List(a)}, m.Field{Name: "q", T: m.Map(m.Str, a)}), a),
		// monomorphic overloads with the same composite parameter twice (the same variable may be passed twice)
		mk(19, m.Str, m.List(m.Num), m.List(m.Num)),
		mk(20, m.Str, m.Obj(m.Field{Name: "w", T: m.Num}, m.Field{Name: "h", T: m.Num}), m.Obj(m.Field{Name: "w", T: m.Num}, m.Field{Name: "h", T: m.Num})),
		mk(21, m.Str, m.Map(m.Str, m.List(m.Num)), m.Map(m.Str, m.List(m.Num)), m.Num),
		// type variables that occur ONLY as map keys (still polymorphic), also deeper and next to a mono twin
		mk(22, m.Str, m.Map(m.Var("k"), m.Num)),
		mk(23, m.Str, m.List(m.Map(m.Var("k"), m.Str))),
		mk(24, m.Str, m.Map(m.Str, m.Num)),
		mk(25, m.Str, m.Obj(m.Field{Name: "f", T: m.Map(m.Var("k"), m.Bool)}), m.Num),
		// results that the parameters do not determine (never resolvable): variable as key / value / element of the result
		mk(26, m.Map(m.Var("k"), a), m.List(a)),
		mk(27, m.Map(m.Var("k"), m.Num), m.Num),
		mk(28, m.List(b), m.Str, a),
		// the most general two-parameter signature, next to ones that share a variable
		mk(29, m.Str, a, b),
		mk(30, m.Str, m.List(a), m.List(b)),
		mk(31, m.Str, m.List(a), m.List(a)),
		// the SAME monomorphic signatures as #0 and #5, registered again with another result type
		// (a later registration of one signature replaces the earlier one, for typing and for running alike)
		mk(32, m.Num, m.Num),
		mk(33, m.Bool, m.List(m.Num), m.Num),
	}
}

// randomOv: an overload of "ov" with drawn parameter patterns (variables a, b, k at any
// position, k also as map key) and the marker result.
func randomOv(t *rapid.T, i int) ref.FunSig {
	n := rapid.IntRange(1, 2).Draw(t, "nparams")
	ps := make([]*m.Type, n)
	for j := range ps {
		ps[j] = Type(t, TypeOpt{Depth: rapid.IntRange(0, 2).Draw(t, "pdepth"), Vars: 3, Maybe: true, MaxFields: 2}).FixKeys()
	}
	return ref.FunSig{Name: "ov", Params: ps, Ret: m.Str, Impl: "ov#R" + string(rune('0'+i))}
}

// DrawOvs registers 0–5 overloads of "ov" in a drawn order.
func DrawOvs(t *rapid.T) []ref.FunSig {
	pool := OvPool()
	n := rapid.IntRange(0, 5).Draw(t, "novs")
	var out []ref.FunSig
	for i := 0; i < n && len(pool) > 0; i++ {
		j := rapid.IntRange(0, len(pool)-1).Draw(t, "ov")
		out = append(out, pool[j])
		pool = append(pool[:j], pool[j+1:]...)
	}
	if n > 0 && rapid.IntRange(0, 2).Draw(t, "randomovs") == 0 {
		k := rapid.IntRange(1, 2).Draw(t, "nrandom")
		for i := 0; i < k; i++ {
			f := randomOv(t, i)
			at := rapid.IntRange(0, len(out)).Draw(t, "at")
			out = append(out[:at], append([]ref.FunSig{f}, out[at:]...)...)
		}
	}
	if len(out) > 0 && rapid.IntRange(0, 3).Draw(t, "dupov") == 0 {
		// one polymorphic overload registered a second time (the same signature and implementation),
		// before or after the others: resolution and the implementation that runs stay what they were
		j := rapid.IntRange(0, len(out)-1).Draw(t, "dupwhich")
		if f := out[j]; len(m.Tuple(append(append([]*m.Type(nil), f.Params...), f.Ret)...).FreeVars()) > 0 {
			at := rapid.IntRange(0, len(out)).Draw(t, "dupat")
			out = append(out[:at], append([]ref.FunSig{f}, out[at:]...)...)
		}
	}
	return out
}

// OvCall builds a call of "ov": arguments shaped after one of the registered
// overloads (so that the call often resolves — possibly to another overload),
// or an empty literal / arbitrary argument.
func (g *G) OvCall(fuel int) *m.Expr {
	g.stat("ov-call")
	if len(g.Ovs) == 0 {
		return m.Call("ov", g.expr(g.anyType(2), fuel-1))
	}
	f := g.Ovs[g.intn("whichov", len(g.Ovs))]
	inst := map[string]*m.Type{}
	kv := m.Tuple(f.Params...).KeyVars()
	for _, v := range m.Tuple(f.Params...).FreeVars() {
		if kv[v] {
			inst[v] = m.Str
		} else {
			inst[v] = g.anyType(2)
		}
	}
	args := make([]*m.Expr, len(f.Params))
	for i, p := range f.Params {
		pt := p.Subst1(inst)
		switch {
		case pt.K == m.TList && g.chance("emptyarg", 1, 5):
			args[i] = m.ListE()
			g.stat("empty-literal-argument")
		case g.chance("otherarg", 1, 8):
			args[i] = g.expr(g.anyType(2), fuel-1)
		default:
			args[i] = g.expr(pt, fuel-1)
		}
	}
	// the same variable passed for two parameters of equal type
	for i := range f.Params {
		for j := i + 1; j < len(f.Params); j++ {
			if m.Equal(f.Params[i].Subst1(inst), f.Params[j].Subst1(inst)) && !f.Params[i].Subst1(inst).IsPrim() && g.chance("samevar", 1, 2) {
				v := g.Var(f.Params[i].Subst1(inst))
				args[i], args[j] = v, v.Clone()
				g.stat("same-variable-twice")
			}
		}
	}
	return m.Call("ov", args...)
}

type slot struct {
	parent *m.Expr
	idx    int
}

func slots(e *m.Expr) []slot {
	var out []slot
	var w func(x *m.Expr)
	w = func(x *m.Expr) {
		for i, a := range x.A {
			// the label of a tr call is not interesting
			out = append(out, slot{x, i})
			w(a)
		}
	}
	w(e)
	return out
}

// Mutations is the catalogue of type-breaking mutations (the reference
// checker, not the mutation, decides whether the result is ill-typed).
var Mutations = []string{"replace-subexpr", "hetero-element", "hetero-key", "hetero-value", "composite-key", "duplicate-field",
	"unknown-field", "subscript-non-container", "non-numeric-index", "wrong-key-type", "arity-plus", "arity-minus",
	"undefined-var", "reserved-var", "optional-for-payload", "inconsistent-typevar", "call-non-function", "empty-literal-mix",
	"member-on-non-object", "cond-not-bool", "payload-for-optional", "same-variable-twice-then-mismatch",
	"bottom-typed-subexpr", "bottom-typed-key", "bottom-typed-dynamic-argument"}

// Mutate applies one mutation to a copy of e and returns it with the
// mutation's name ("" if the mutation found no place to apply).
func (g *G) Mutate(e *m.Expr) (*m.Expr, string) {
	e = e.Clone()
	kind := Mutations[g.intn("mutation", len(Mutations))]
	if len(g.OnlyMutations) > 0 {
		kind = g.OnlyMutations[g.intn("onlymutation", len(g.OnlyMutations))]
	}
	ss := slots(e)
	pickSlot := func(pred func(p *m.Expr, i int) bool) *slot {
		var c []slot
		for _, s := range ss {
			if pred(s.parent, s.idx) {
				c = append(c, s)
			}
		}
		if len(c) == 0 {
			return nil
		}
		return &c[g.intn("slot", len(c))]
	}
	any := func(*m.Expr, int) bool { return true }
	wrapTop := func(f func(x *m.Expr) *m.Expr) (*m.Expr, string) {
		if s := pickSlot(any); s != nil && g.chance("deepmut", 2, 3) {
			s.parent.A[s.idx] = f(s.parent.A[s.idx])
			return Parenthesize(e), kind
		}
		return Parenthesize(f(e)), kind
	}
	// an expression of the element type of an empty literal (⊥): [][0], [:][k], get([], 0, [][0]) ...
	bottom := func() *m.Expr {
		switch g.intn("bottomform", 4) {
		case 0:
			return m.Index(m.ListE(), m.Lit("num", "0"))
		case 1:
			return m.Index(m.MapE(), m.Lit("str", `"k"`))
		case 2:
			return m.Index(m.Index(m.ListE(m.ListE()), m.Lit("num", "0")), m.Lit("num", "0"))
		default:
			return m.Call("if", m.Lit("bool", "true"), m.Index(m.ListE(), m.Lit("num", "0")), m.Index(m.ListE(), m.Lit("num", "1")))
		}
	}
	switch kind {
	case "bottom-typed-subexpr":
		s := pickSlot(any)
		if s == nil {
			return e, ""
		}
		s.parent.A[s.idx] = bottom()
		return Parenthesize(e), kind
	case "bottom-typed-dynamic-argument":
		// an argument of a call through a function VALUE (non-identifier callee) whose type is the
		// element type of an empty literal: only equal types fit a function value's parameters
		if s := pickSlot(func(p *m.Expr, i int) bool { return p.K == "dcall" && i >= 1 }); s != nil {
			s.parent.A[s.idx] = bottom()
			return Parenthesize(e), kind
		}
		if !g.O.Harness {
			return e, ""
		}
		return wrapTop(func(x *m.Expr) *m.Expr {
			f := g.Var(HsubT)
			var callee *m.Expr
			if g.chance("calleeform", 1, 2) {
				callee = m.Index(m.ListE(f), m.Lit("num", "0"))
			} else {
				callee = m.Group(m.Member(m.ObjE([]string{"f"}, []*m.Expr{f}), "f"))
			}
			args := []*m.Expr{bottom(), m.Lit("num", "1")}
			if g.chance("argpos", 1, 2) {
				args[0], args[1] = args[1], args[0]
			}
			return m.Index(m.ListE(x), m.DCall(callee, args...))
		})
	case "bottom-typed-key":
		s := pickSlot(func(p *m.Expr, i int) bool { return p.K == "map" && len(p.A) >= 2 && i%2 == 0 })
		if s == nil {
			return wrapTop(func(x *m.Expr) *m.Expr { return m.Index(m.MapE(bottom(), x), bottom()) })
		}
		s.parent.A[s.idx] = bottom()
		return Parenthesize(e), kind
	case "replace-subexpr":
		s := pickSlot(any)
		if s == nil {
			return e, ""
		}
		s.parent.A[s.idx] = g.expr(g.anyType(2), 1)
		return Parenthesize(e), kind
	case "hetero-element":
		s := pickSlot(func(p *m.Expr, i int) bool { return p.K == "list" && len(p.A) > 0 })
		if s == nil {
			return wrapTop(func(x *m.Expr) *m.Expr { return m.Index(m.ListE(x, g.expr(g.anyType(2), 1)), m.Lit("num", "0")) })
		}
		s.parent.A = append(s.parent.A, g.expr(g.anyType(2), 1))
		return Parenthesize(e), kind
	case "hetero-key", "hetero-value":
		s := pickSlot(func(p *m.Expr, i int) bool { return p.K == "map" && len(p.A) >= 2 })
		if s == nil {
			return e, ""
		}
		k, v := s.parent.A[0].Clone(), s.parent.A[1].Clone()
		if kind == "hetero-key" {
			k = g.literal(pick(g.T, "kty", []*m.Type{m.Num, m.Str, m.Bool}), 0)
		} else {
			v = g.expr(g.anyType(2), 1)
		}
		s.parent.A = append(s.parent.A, k, v)
		return Parenthesize(e), kind
	case "composite-key":
		return wrapTop(func(x *m.Expr) *m.Expr {
			return m.Index(m.MapE(m.ListE(m.Lit("num", "1")), x), m.ListE(m.Lit("num", "1")))
		})
	case "duplicate-field":
		s := pickSlot(func(p *m.Expr, i int) bool { return p.K == "obj" && len(p.A) > 0 })
		if s == nil {
			return wrapTop(func(x *m.Expr) *m.Expr {
				return m.Member(m.ObjE([]string{"a", "a"}, []*m.Expr{x, x.Clone()}), "a")
			})
		}
		s.parent.Keys = append(s.parent.Keys, s.parent.Keys[0])
		s.parent.A = append(s.parent.A, s.parent.A[0].Clone())
		return Parenthesize(e), kind
	case "unknown-field":
		s := pickSlot(func(p *m.Expr, i int) bool { return p.K == "member" })
		if s == nil {
			return e, ""
		}
		s.parent.Name = "zz9"
		return e, kind
	case "subscript-non-container":
		return wrapTop(func(x *m.Expr) *m.Expr {
			return m.Index(g.literal(pick(g.T, "nc", []*m.Type{m.Num, m.Str, m.Bool, m.Obj(m.Field{Name: "a", T: m.Num})}), 1), m.Lit("num", "0"))
		})
	case "non-numeric-index":
		s := pickSlot(func(p *m.Expr, i int) bool { return p.K == "index" && i == 1 })
		if s == nil {
			return e, ""
		}
		s.parent.A[1] = g.literal(pick(g.T, "ity", []*m.Type{m.Str, m.Bool, m.List(m.Num)}), 1)
		return Parenthesize(e), kind
	case "wrong-key-type":
		s := pickSlot(func(p *m.Expr, i int) bool { return p.K == "index" && i == 1 })
		if s == nil {
			return e, ""
		}
		s.parent.A[1] = g.literal(pick(g.T, "ity", []*m.Type{m.Num, m.Str, m.Bool, m.Time}), 1)
		return Parenthesize(e), kind
	case "arity-plus", "arity-minus":
		s := pickSlot(func(p *m.Expr, i int) bool { return (p.K == "call" || p.K == "mcall") && i == 0 })
		if s == nil {
			return e, ""
		}
		if kind == "arity-plus" {
			s.parent.A = append(s.parent.A, g.expr(g.anyType(1), 0))
		} else {
			s.parent.A = s.parent.A[:len(s.parent.A)-1]
			if s.parent.K == "mcall" && len(s.parent.A) == 0 {
				return e, ""
			}
		}
		return e, kind
	case "undefined-var", "reserved-var":
		s := pickSlot(any)
		if s == nil {
			return e, ""
		}
		name := "undefined_name"
		if kind == "reserved-var" {
			name = pick(g.T, "reserved", []string{"var", "list", "match", "string", "type", "return", "map"})
			if _, bound := g.Env[name]; !bound && g.chance("bindreserved", 1, 2) {
				// even a bound reserved word may not be used as a variable
				g.Env[name] = m.Num
				g.Vals[name] = m.VNum(1)
			}
		}
		s.parent.A[s.idx] = m.V(name)
		return e, kind
	case "optional-for-payload":
		s := pickSlot(any)
		if s == nil {
			return e, ""
		}
		s.parent.A[s.idx] = g.Var(m.Maybe(pick(g.T, "optty", []*m.Type{m.Num, m.Str, m.Bool, m.List(m.Num)})))
		return e, kind
	case "inconsistent-typevar":
		return wrapTop(func(x *m.Expr) *m.Expr {
			one, s := m.Lit("num", "1"), m.Lit("str", `"s"`)
			switch g.intn("incons", 6) {
			case 0:
				return m.Call("if", m.Infix("==", m.ListE(one), m.ListE(s)), x, x.Clone())
			case 1:
				return m.Index(m.Call("if", m.Lit("bool", "true"), m.ListE(x), m.ListE(m.ListE(x.Clone()))), m.Lit("num", "0"))
			case 2:
				return m.Call("get", m.ListE(x), m.Lit("num", "0"), m.ListE(x.Clone()))
			case 3:
				return m.Index(m.Call("union", m.ListE(x), m.ListE(m.ListE(x.Clone()))), m.Lit("num", "0"))
			case 4:
				return m.Call("get", m.MapE(s, x), one, x.Clone())
			default:
				return m.Call("if", m.Call("isset", m.MapE(s, one), one), x, x.Clone())
			}
		})
	case "call-non-function":
		return wrapTop(func(x *m.Expr) *m.Expr {
			switch g.intn("cnf", 3) {
			case 0:
				return m.DCall(m.Index(m.ListE(x), m.Lit("num", "0")), m.Lit("num", "1"))
			case 1:
				return m.Call("no_such_function", x)
			default:
				return m.DCall(m.Group(m.Member(m.ObjE([]string{"f"}, []*m.Expr{x}), "f")))
			}
		})
	case "empty-literal-mix":
		return wrapTop(func(x *m.Expr) *m.Expr {
			switch g.intn("elm", 5) {
			case 0:
				return m.Index(m.Index(m.ListE(m.ListE(), m.ListE(x)), m.Lit("num", "1")), m.Lit("num", "0"))
			case 1:
				return m.Index(m.Call("if", m.Lit("bool", "true"), m.ListE(x), m.ListE()), m.Lit("num", "0"))
			case 2:
				return m.Call("get", m.ListE(), m.Lit("num", "0"), x)
			case 3:
				return m.Call("get", m.MapE(), m.Lit("str", `"k"`), x)
			default:
				return m.Call("if", m.Infix("==", m.ListE(), m.ListE(x)), x.Clone(), x.Clone())
			}
		})
	case "member-on-non-object":
		return wrapTop(func(x *m.Expr) *m.Expr {
			return m.Member(g.literal(pick(g.T, "nobj", []*m.Type{m.Num, m.Str, m.List(m.Num), m.Map(m.Str, m.Num)}), 1), "a")
		})
	case "same-variable-twice-then-mismatch":
		// one composite-typed variable mentioned twice in the first element (the
		// same type object at two positions), a second element that agrees at the
		// first position and differs at the later one
		return wrapTop(func(x *m.Expr) *m.Expr {
			T := pick(g.T, "sharedty", []*m.Type{m.List(m.Num), m.Map(m.Str, m.Num), m.Obj(m.Field{Name: "p", T: m.Num}), m.List(m.List(m.Str))})
			U := pick(g.T, "otherty", []*m.Type{m.List(m.Str), m.Map(m.Str, m.Bool), m.Obj(m.Field{Name: "p", T: m.Str}), m.List(m.Num), m.Num})
			v := g.Var(T)
			first := m.ObjE([]string{"a", "b"}, []*m.Expr{v, v.Clone()})
			second := m.ObjE([]string{"a", "b"}, []*m.Expr{g.literal(T, 1), g.expr(U, 1)})
			switch g.intn("sharedform", 3) {
			case 0:
				return m.Member(m.Index(m.ListE(first, second), m.Lit("num", "1")), "b")
			case 1:
				return m.Index(m.MapE(m.Lit("str", `"k"`), first, m.Lit("str", `"j"`), second), m.Lit("str", `"j"`))
			default:
				return m.Call("if", m.Lit("bool", "true"), first, second)
			}
		})
	case "payload-for-optional":
		// get(x, d) where x is not optional
		return wrapTop(func(x *m.Expr) *m.Expr { return m.Call("get", x, x.Clone()) })
	case "cond-not-bool":
		return wrapTop(func(x *m.Expr) *m.Expr {
			return m.Call("if", g.literal(pick(g.T, "nb", []*m.Type{m.Num, m.Str, m.List(m.Bool)}), 1), x, x.Clone())
		})
	}
	return e, ""
}
