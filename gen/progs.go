package gen

import (
	"math"
	"strconv"
	"strings"

	"pgregory.net/rapid"

	m "verif/model"
	"verif/ref"
)

type ProgOpt struct {
	Fuel       int
	Harness    bool // may call harness functions (tr, hsub, hpair, lz_*, function-typed variables)
	Partial    bool // free indices / keys / divisors / patterns (the program may fail)
	Sugar      bool // ?:, method-call notation, redundant parentheses
	Print      bool // allow print (writes to stdout)
	NonFinite  bool // allow expressions producing NaN / Inf
	Maybe      bool // optional-typed variables and get(maybe, d)
	Times      bool
	Poison     bool // poisoned sub-expressions in lazy positions (C06)
	MaxWidth   int  // literal member count
	Zones      bool // environment times in several zones
	NoStringOf bool // avoid string()/print renderings (whose text is only characterised)
	LazyValues bool // bind lazy function VALUES to variables and call them dynamically
	NoPick     bool // do not use lz_pick (it evaluates one operand twice)
	HostEnv    bool // environment types expressible as Go host data (optionals only as object fields / bindings)
}

// G generates well-typed programs by type-directed construction. The
// environment grows on demand: asking for a variable of a type that is not
// bound yet binds a fresh name to a generated value.
type G struct {
	T     *rapid.T
	O     ProgOpt
	Env   map[string]*m.Type
	Vals  map[string]*m.Val
	names []string
	label int
	Stats map[string]int
	Ovs   []ref.FunSig // registered overloads of "ov" (C05)
	// OnlyMutations (when set) restricts Mutate to these kinds
	OnlyMutations []string
}

func NewG(t *rapid.T, o ProgOpt) *G {
	if o.MaxWidth == 0 {
		o.MaxWidth = 3
	}
	return &G{T: t, O: o, Env: map[string]*m.Type{}, Vals: map[string]*m.Val{}, Stats: map[string]int{}}
}

var varPool = []string{"x", "y", "z", "s", "b", "xs", "ys", "mp", "o", "t0", "v1", "v2", "名", "été", "_u", "k", "q", "w", "n1", "n2", "n3", "n4", "n5", "n6"}

func (g *G) stat(s string) { g.Stats[s]++ }

func (g *G) intn(label string, n int) int { return rapid.IntRange(0, n-1).Draw(g.T, label) }
func (g *G) chance(label string, num, den int) bool {
	return rapid.IntRange(0, den-1).Draw(g.T, label) < num
}

// Var returns a variable of type ty, binding a new one when needed / drawn.
func (g *G) Var(ty *m.Type) *m.Expr {
	var have []string
	for _, n := range g.names {
		if m.Equal(g.Env[n], ty) {
			have = append(have, n)
		}
	}
	if len(have) > 0 && (len(g.names) >= len(varPool) || !g.chance("newvar", 1, 4)) {
		return m.V(have[g.intn("whichvar", len(have))])
	}
	if len(g.names) >= len(varPool) {
		// pool exhausted and no variable of this type: fall back on a literal if possible
		if literalable(ty) {
			return g.literal(ty, 1)
		}
		// reuse pool with suffix
		name := "v" + strconv.Itoa(len(g.names)+100)
		g.bind(name, ty)
		return m.V(name)
	}
	name := varPool[len(g.names)]
	g.bind(name, ty)
	return m.V(name)
}

// FreshVar binds a new variable of type ty; when v is not nil it becomes the
// variable's sample value (it must be of type ty).
func (g *G) FreshVar(ty *m.Type, v *m.Val) *m.Expr {
	name := "v" + strconv.Itoa(len(g.names)+100)
	if len(g.names) < len(varPool) {
		name = varPool[len(g.names)]
	}
	g.bind(name, ty)
	if v != nil {
		g.Vals[name] = v
		g.Env[name] = v.T
	}
	return m.V(name)
}

// FreshVarNamed binds a given name to a given value (the name must be free).
func (g *G) FreshVarNamed(name string, v *m.Val) *m.Expr {
	g.bind(name, v.T)
	g.Vals[name] = v
	g.Env[name] = v.T
	return m.V(name)
}

func (g *G) bind(name string, ty *m.Type) {
	// the binding's own written field order is drawn independently of ty's
	vt := PermuteType(g.T, ty)
	g.Env[name] = vt
	var v *m.Val
	if ty.K == m.TFun {
		v = &m.Val{T: vt, Fn: funValueFor(ty)}
	} else {
		v = Value(g.T, vt, ValOpt{MaxLen: 3, Zones: g.O.Zones, NonFinite: g.O.NonFinite})
		// the run-time value may again be written in other field orders
		v = PermuteVal(g.T, v)
		v = fixFunVals(v)
	}
	g.Vals[name] = v
	g.names = append(g.names, name)
}

func fixFunVals(v *m.Val) *m.Val { return v }

// function-typed variables are bound to harness functions of matching type
var HsubT = m.Fun("hsub", []*m.Type{m.Num, m.Num}, m.Num)

var LzAndT = m.Fun("lz_and", []*m.Type{m.Bool, m.Bool}, m.Bool)

func funValueFor(ty *m.Type) string {
	if m.Equal(ty, LzAndT) {
		return "lz_and" // a LAZY function value bound to a variable
	}
	return "hsub"
}

func literalable(ty *m.Type) bool {
	switch ty.K {
	case m.TMaybe, m.TFun, m.TBot, m.TVar, m.TTop:
		return false
	case m.TList:
		return ty.El().K == m.TBot || exprable(ty.El())
	case m.TMap:
		return ty.Key().K == m.TBot || exprable(ty.Val())
	case m.TObj:
		for _, f := range ty.F {
			if !exprable(f.T) {
				return false
			}
		}
	}
	return true
}

// exprable: some expression of this type can be generated (optionals and
// functions come from variables).
func exprable(ty *m.Type) bool { return ty.K != m.TBot && ty.K != m.TVar && ty.K != m.TTop }

// ---------------------------------------------------------------- literals

func NumLitText(g *G, x float64) string {
	// x >= 0, finite
	if x == math.Trunc(x) && x < 9.2e18 {
		n := uint64(x)
		switch g.intn("numform", 6) {
		case 0:
			return "0x" + strings.ToLower(strconv.FormatUint(n, 16))
		case 1:
			if g.chance("upperhex", 1, 2) {
				return "0x" + strings.ToUpper(strconv.FormatUint(n, 16))
			}
			return "0b" + strconv.FormatUint(n, 2)
		case 2:
			return "0o" + strconv.FormatUint(n, 8)
		case 3:
			if n > 0 && n%10 == 0 && n < 1e15 {
				// exponent form
				e := 0
				for n%10 == 0 {
					n /= 10
					e++
				}
				return strconv.FormatUint(n, 10) + "e" + strconv.Itoa(e)
			}
			return strconv.FormatUint(n, 10) + ".0"
		default:
			return strconv.FormatUint(n, 10)
		}
	}
	if g.chance("expform", 1, 3) {
		s := strconv.FormatFloat(x, 'e', -1, 64) // d.ddde±xx
		if g.chance("upperE", 1, 2) {
			s = strings.Replace(s, "e", "E", 1)
		}
		return s
	}
	s := strconv.FormatFloat(x, 'f', -1, 64)
	return s
}

func (g *G) numLit(x float64) *m.Expr {
	if math.IsNaN(x) {
		g.stat("lit-nan")
		return m.Infix("/", m.Lit("num", "0"), m.Lit("num", "0"))
	}
	if math.IsInf(x, 1) {
		return m.Infix("/", m.Lit("num", "1"), m.Lit("num", "0"))
	}
	if math.IsInf(x, -1) {
		return m.Prefix("-", m.Infix("/", m.Lit("num", "1"), m.Lit("num", "0")))
	}
	if math.Signbit(x) {
		return m.Prefix("-", m.Lit("num", NumLitText(g, -x)))
	}
	return m.Lit("num", NumLitText(g, x))
}

// StrLitText encodes s as a quoted (or raw) literal using only escapes the
// decoder accepts.
func StrLitText(s string, raw bool, uEscapes bool) string {
	if raw && !strings.ContainsAny(s, "`\r") {
		return "`" + s + "`"
	}
	var b strings.Builder
	b.WriteByte('"')
	for _, r := range s {
		switch {
		case r == '"':
			b.WriteString(`\"`)
		case r == '\\':
			b.WriteString(`\\`)
		case r == '\t':
			b.WriteString(`\t`)
		case r == '\n':
			b.WriteString(`\n`)
		case r == '\r':
			b.WriteString(`\r`)
		case r == '\b':
			b.WriteString(`\b`)
		case r == '\f':
			b.WriteString(`\f`)
		case r < 0x20 || r == 0x7f:
			b.WriteString(`\u00` + strconv.FormatInt(int64(r)>>4, 16) + strconv.FormatInt(int64(r)&15, 16))
		case uEscapes && r >= 0x80 && r < 0xd800:
			h := strconv.FormatInt(int64(r), 16)
			b.WriteString(`\u` + strings.Repeat("0", 4-len(h)) + h)
		default:
			b.WriteRune(r)
		}
	}
	b.WriteByte('"')
	return b.String()
}

func validUTF8NoFFFD(s string) bool {
	for _, r := range s {
		if r == 0xFFFD {
			return false
		}
	}
	return true
}

func (g *G) strLit(s string) *m.Expr {
	if !validUTF8NoFFFD(s) {
		s = "a"
	}
	return m.Lit("str", StrLitText(s, g.chance("rawstr", 1, 4), g.chance("uesc", 1, 4)))
}

func (g *G) literal(ty *m.Type, fuel int) *m.Expr {
	switch ty.K {
	case m.TNum:
		x := Num(g.T)
		if !g.O.NonFinite && (math.IsNaN(x) || math.IsInf(x, 0)) {
			x = 1
		}
		return g.numLit(x)
	case m.TStr:
		return g.strLit(Str(g.T))
	case m.TBool:
		if g.chance("boollit", 1, 2) {
			return m.Lit("bool", "true")
		}
		return m.Lit("bool", "false")
	case m.TTime:
		txt := pick(g.T, "timetext", TimeTexts)
		if g.chance("strtotime", 1, 3) {
			return m.Call("strtotime", m.Lit("str", StrLitText(txt, false, false)))
		}
		return m.Lit("time", "'"+txt+"'")
	case m.TList:
		if ty.El().K == m.TBot {
			g.stat("empty-list-literal")
			return m.ListE()
		}
		n := 1 + g.intn("listlen", g.O.MaxWidth)
		xs := make([]*m.Expr, n)
		for i := range xs {
			xs[i] = g.expr(ty.El(), fuel-1)
		}
		return m.ListE(xs...)
	case m.TMap:
		if ty.Key().K == m.TBot {
			g.stat("empty-map-literal")
			return m.MapE()
		}
		n := 1 + g.intn("maplen", g.O.MaxWidth)
		var kvs []*m.Expr
		for i := 0; i < n; i++ {
			var k *m.Expr
			if i > 0 && g.chance("dupkey", 1, 6) {
				k = kvs[0].Clone()
				g.stat("duplicate-key-literal")
			} else {
				k = g.keyExpr(ty.Key(), fuel-1)
			}
			kvs = append(kvs, k, g.expr(ty.Val(), fuel-1))
		}
		return m.MapE(kvs...)
	case m.TObj:
		p := Perm(g.T, len(ty.F))
		keys := make([]string, len(p))
		vals := make([]*m.Expr, len(p))
		for j, i := range p {
			keys[j] = ty.F[i].Name
			vals[j] = g.expr(ty.F[i].T, fuel-1)
		}
		if len(p) > 1 {
			g.stat("object-literal")
		}
		return m.ObjE(keys, vals)
	}
	return g.Var(ty)
}

// keyExpr: map keys are kept simple (literals, sometimes variables) so that
// distinctness is mostly under the generator's control.
func (g *G) keyExpr(kt *m.Type, fuel int) *m.Expr {
	if g.chance("keyvar", 1, 6) {
		return g.Var(kt)
	}
	return g.literal(kt, 0)
}

// ---------------------------------------------------------------- expressions

func (g *G) anyType(depth int) *m.Type {
	t := Type(g.T, TypeOpt{Depth: depth, Maybe: g.O.Maybe, MaxFields: 3, MaybeInFields: g.O.HostEnv})
	if !g.O.Times {
		t = noTime(t)
	}
	return t.FixKeys()
}

func noTime(t *m.Type) *m.Type {
	if t.K == m.TTime {
		return m.Num
	}
	n := &m.Type{K: t.K, N: t.N}
	for _, a := range t.A {
		n.A = append(n.A, noTime(a))
	}
	for _, f := range t.F {
		n.F = append(n.F, m.Field{Name: f.Name, T: noTime(f.T)})
	}
	if len(n.A) == 0 && len(n.F) == 0 {
		return t
	}
	return n
}

func (g *G) leaf(ty *m.Type) *m.Expr {
	if !literalable(ty) || g.chance("leafvar", 1, 3) {
		return g.Var(ty)
	}
	return g.literal(ty, 0)
}

func (g *G) nextLabel() *m.Expr {
	g.label++
	return m.Lit("num", strconv.Itoa(g.label))
}

// Expr generates an expression whose type equals want.
func (g *G) Expr(want *m.Type) *m.Expr {
	e := g.expr(want, g.O.Fuel)
	e = Parenthesize(e)
	if g.O.Sugar {
		e = g.redundantGroups(e)
	}
	return e
}

func (g *G) call(name string, args ...*m.Expr) *m.Expr {
	if g.O.Sugar && len(args) > 0 && g.chance("method", 1, 3) {
		g.stat("method-call")
		return m.MCall(name, args[0], args[1:]...)
	}
	return m.Call(name, args...)
}

func (g *G) cond(c, a, b *m.Expr) *m.Expr {
	if g.O.Sugar && g.chance("tern", 1, 2) {
		g.stat("ternary")
		return m.Tern(c, a, b)
	}
	return m.Call("if", c, a, b)
}

func (g *G) expr(want *m.Type, fuel int) *m.Expr {
	if fuel <= 0 || want.K == m.TBot {
		return g.leaf(want)
	}
	if want.K == m.TFun {
		return g.Var(want)
	}
	type alt func() *m.Expr
	var alts []alt
	add := func(w int, f alt) {
		for i := 0; i < w; i++ {
			alts = append(alts, f)
		}
	}
	hasBot := want.HasKind(m.TBot)
	// ---- generic alternatives
	add(2, func() *m.Expr { return g.leaf(want) })
	if literalable(want) && want.K != m.TNum && want.K != m.TStr && want.K != m.TBool && want.K != m.TTime {
		add(3, func() *m.Expr { return g.literal(want, fuel) })
	}
	add(2, func() *m.Expr { // conditional
		g.stat("conditional")
		return g.cond(g.expr(m.Bool, fuel-1), g.expr(want, fuel-1), g.expr(want, fuel-1))
	})
	if !hasBot {
		add(2, func() *m.Expr { // member of an object
			g.stat("member")
			names := DistinctNames(g.T, 1+g.intn("extra", 3))
			fs := make([]m.Field, len(names))
			at := g.intn("at", len(names))
			for i, n := range names {
				if i == at {
					fs[i] = m.Field{Name: n, T: want}
				} else {
					fs[i] = m.Field{Name: n, T: g.anyType(2)}
				}
			}
			return m.Member(g.expr(m.Obj(fs...), fuel-1), names[at])
		})
		add(2, func() *m.Expr { return g.indexList(want, fuel) })
		add(2, func() *m.Expr { return g.indexMap(want, fuel) })
		add(1, func() *m.Expr { // get(list, i, d)
			g.stat("get-list")
			return g.call("get", g.expr(m.List(want), fuel-1), g.anyIndex(), g.expr(want, fuel-1))
		})
		add(1, func() *m.Expr { // get(map, k, d)
			g.stat("get-map")
			kt := Prim(g.T)
			if !g.O.Times && kt.K == m.TTime {
				kt = m.Str
			}
			return g.call("get", g.expr(m.Map(kt, want), fuel-1), g.keyExpr(kt, fuel-1), g.expr(want, fuel-1))
		})
		if g.O.Maybe {
			add(1, func() *m.Expr { // get(maybe, d)
				g.stat("get-maybe")
				return g.call("get", g.expr(m.Maybe(want), fuel-1), g.expr(want, fuel-1))
			})
		}
	}
	if g.O.Print {
		add(1, func() *m.Expr { g.stat("print"); return g.call("print", g.expr(want, fuel-1)) })
	}
	if g.O.Harness {
		add(2, func() *m.Expr { g.stat("tr"); return m.Call("tr", g.nextLabel(), g.expr(want, fuel-1)) })
		add(1, func() *m.Expr {
			g.stat("lz_if")
			return g.call("lz_if", g.expr(m.Bool, fuel-1), g.expr(want, fuel-1), g.expr(want, fuel-1))
		})
		add(1, func() *m.Expr { // lazy functions of other arities than if / && / ||
			sel := func() *m.Expr {
				if g.intn("selkind", 3) == 0 {
					return g.expr(m.Num, fuel-1)
				}
				return m.Lit("num", strconv.Itoa(g.intn("sel", 7)))
			}
			switch g.intn("widelazy", 7) {
			case 5, 6:
				// a host function that recovers from the failure of its first (deferred) operand
				g.stat("lz_try")
				first := g.expr(want, fuel-1)
				if g.O.Poison && !hasBot && g.intn("tryfails", 2) == 0 {
					// the deferred operand fails while a value of another type is pending inside it
					g.stat("lz_try-failing-operand")
					first = m.Index(m.ListE(first), m.Lit("num", "99"))
				}
				return g.call("lz_try", first, g.expr(want, fuel-1))
			case 0:
				g.stat("lz_sel4")
				return g.call("lz_sel4", sel(), g.expr(want, fuel-1), g.expr(want, fuel-1), g.expr(want, fuel-1))
			case 1:
				g.stat("lz_sel6")
				return g.call("lz_sel6", sel(), g.expr(want, fuel-1), g.expr(want, fuel-1), g.expr(want, fuel-1), g.expr(want, fuel-1), g.expr(want, fuel-1))
			case 2:
				g.stat("lz_one")
				return g.call("lz_one", g.expr(want, fuel-1))
			case 3:
				g.stat("h4")
				return g.call("h4", g.expr(m.Num, fuel-1), g.expr(want, fuel-1), g.expr(m.Num, fuel-1), g.expr(want, fuel-1))
			default:
				if want.K == m.TNum {
					g.stat("lz_none")
					return g.call("lz_none", g.expr(g.anyType(1), fuel-1), g.expr(m.Num, fuel-1))
				}
				g.stat("lz_one")
				return g.call("lz_one", g.expr(want, fuel-1))
			}
		})
		if !g.O.NoPick {
			add(1, func() *m.Expr {
				g.stat("lz_pick")
				mode := m.Lit("num", strconv.Itoa(g.intn("pickmode", 5)))
				return m.Call("lz_pick", mode, g.expr(want, fuel-1), g.expr(want, fuel-1))
			})
		}
	}
	if g.O.Poison {
		add(2, func() *m.Expr { // deliberately failing sub-expression
			g.stat("poison")
			inner := g.leaf(want)
			switch g.intn("poisonkind", 4) {
			case 0:
				if want.K == m.TNum {
					return m.Infix("%", inner, m.Lit("num", "0"))
				}
				return m.Call("boom", inner)
			case 1:
				if !hasBot {
					return m.Index(m.ListE(inner), m.Lit("num", "99"))
				}
				return m.Call("boom", inner)
			case 2:
				if !hasBot {
					return m.Index(m.MapE(m.Lit("str", `"k"`), inner), m.Lit("str", `"absent"`))
				}
				return m.Call("boom", inner)
			default:
				return m.Call("boom", inner)
			}
		})
		if !hasBot {
			add(2, func() *m.Expr { // guarded partial operation: if(isset(m,k), m[k], d)
				g.stat("guarded-partial")
				kt := m.Str
				mt := m.Map(kt, want)
				var mp *m.Expr
				if g.chance("guardvar", 1, 2) {
					mp = g.Var(mt)
				} else {
					mp = g.literal(mt, 1)
				}
				k := g.keyExpr(kt, 0)
				return g.cond(m.Call("isset", mp, k), m.Index(mp.Clone(), k.Clone()), g.expr(want, fuel-1))
			})
		}
	}
	// ---- by type
	switch want.K {
	case m.TNum:
		add(3, func() *m.Expr { return g.literal(m.Num, 0) })
		add(6, func() *m.Expr {
			op := pick(g.T, "arith", []string{"+", "-", "*", "/", "^", "%"})
			g.stat("arith")
			l := g.expr(m.Num, fuel-1)
			var r *m.Expr
			if op == "%" && !g.O.Partial {
				r = g.numLit(pick(g.T, "divisor", []float64{1, 2, 3, 7, -2, 2.5, 10}))
			} else {
				r = g.expr(m.Num, fuel-1)
			}
			return m.Infix(op, l, r)
		})
		add(2, func() *m.Expr {
			g.stat("unary")
			return m.Prefix(pick(g.T, "un", []string{"-", "+"}), g.expr(m.Num, fuel-1))
		})
		add(2, func() *m.Expr {
			return g.call(pick(g.T, "math1", []string{"abs", "round", "ceil", "floor"}), g.expr(m.Num, fuel-1))
		})
		add(2, func() *m.Expr {
			f := pick(g.T, "minmax", []string{"max", "min"})
			if g.chance("listform", 1, 2) {
				return g.call(f, g.expr(m.List(m.Num), fuel-1))
			}
			return g.call(f, g.expr(m.Num, fuel-1), g.expr(m.Num, fuel-1))
		})
		add(2, func() *m.Expr {
			g.stat("len")
			switch g.intn("lenof", 4) {
			case 0:
				return g.call("len", g.expr(m.Str, fuel-1))
			case 1:
				return g.call("len", g.expr(m.List(g.anyType(2)), fuel-1))
			case 2:
				if g.chance("lenbot", 1, 3) {
					return g.call("len", m.ListE())
				}
				return g.call("len", m.MapE())
			default:
				return g.call("len", g.expr(m.Map(m.Str, g.anyType(2)), fuel-1))
			}
		})
		if g.O.Times {
			add(1, func() *m.Expr { return m.Infix("-", g.expr(m.Time, fuel-1), g.expr(m.Time, fuel-1)) })
		}
		if g.O.Harness {
			add(1, func() *m.Expr { g.stat("hsub"); return g.call("hsub", g.expr(m.Num, fuel-1), g.expr(m.Num, fuel-1)) })
			add(1, func() *m.Expr { // dynamic call through a function-typed value
				g.stat("dynamic-call")
				f := g.Var(HsubT)
				var callee *m.Expr
				switch g.intn("calleeform", 3) {
				case 0:
					callee = m.Index(m.ListE(f), m.Lit("num", "0"))
				case 1:
					callee = m.Group(m.Member(m.ObjE([]string{"f"}, []*m.Expr{f}), "f"))
				default:
					callee = g.cond(g.expr(m.Bool, fuel-1), f, f.Clone())
				}
				return m.DCall(callee, g.expr(m.Num, fuel-1), g.expr(m.Num, fuel-1))
			})
		}
	case m.TStr:
		add(3, func() *m.Expr { return g.literal(m.Str, 0) })
		add(3, func() *m.Expr { return m.Infix("+", g.expr(m.Str, fuel-1), g.expr(m.Str, fuel-1)) })
		if !g.O.NoStringOf {
			add(2, func() *m.Expr { g.stat("string()"); return g.call("string", g.expr(g.anyType(3), fuel-1)) })
		}
		if g.Ovs != nil {
			add(5, func() *m.Expr { return g.OvCall(fuel) })
		}
	case m.TBool:
		add(2, func() *m.Expr { return g.literal(m.Bool, 0) })
		add(4, func() *m.Expr {
			g.stat("compare")
			op := pick(g.T, "cmp", []string{"==", "!=", "<", "<=", ">", ">="})
			var ot *m.Type
			if op == "==" || op == "!=" {
				switch g.intn("eqty", 6) {
				case 0:
					ot = m.Bool
				case 1:
					ot = m.Str
				case 2:
					ot = m.List(g.anyType(2))
				case 3:
					ot = m.Map(m.Str, g.anyType(2))
				case 4:
					if g.O.Times {
						ot = m.Time
					} else {
						ot = m.Num
					}
				default:
					ot = m.Num
				}
			} else if g.O.Times && g.chance("cmptime", 1, 4) {
				ot = m.Time
			} else {
				ot = m.Num
			}
			return m.Infix(op, g.expr(ot, fuel-1), g.expr(ot, fuel-1))
		})
		add(1, func() *m.Expr {
			// a non-associative operator as direct operand of itself: legal only inside parentheses
			g.stat("nonassoc-nested-in-itself")
			op := pick(g.T, "eqop", []string{"==", "!="})
			ot := pick(g.T, "eqoperand", []*m.Type{m.Num, m.Str, m.Bool})
			inner := m.Infix(op, g.expr(ot, fuel-1), g.expr(ot, fuel-1))
			if g.chance("innerleft", 1, 2) {
				return m.Infix(op, inner, g.expr(m.Bool, fuel-1))
			}
			return m.Infix(op, g.expr(m.Bool, fuel-1), inner)
		})
		add(3, func() *m.Expr {
			g.stat("logic")
			return m.Infix(pick(g.T, "logic", []string{"&&", "||"}), g.expr(m.Bool, fuel-1), g.expr(m.Bool, fuel-1))
		})
		add(1, func() *m.Expr { return m.Prefix("!", g.expr(m.Bool, fuel-1)) })
		add(1, func() *m.Expr {
			g.stat("match")
			var pat *m.Expr
			if g.O.Partial {
				pat = g.strLit(pick(g.T, "pattern", []string{"a", "^a", "[a-z]+", "(", "[", "a**", "\\d+", ".*", "(?i)ab", "x{2,1}"}))
			} else {
				pat = g.strLit(pick(g.T, "pattern", []string{"a", "^a", "[a-z]+", "\\d+", ".*", "(?i)ab", "b$"}))
			}
			return g.call("match", pat, g.expr(m.Str, fuel-1))
		})
		add(1, func() *m.Expr {
			g.stat("isset")
			kt := m.Str
			if g.chance("numkey", 1, 3) {
				kt = m.Num
			}
			return g.call("isset", g.expr(m.Map(kt, g.anyType(2)), fuel-1), g.keyExpr(kt, fuel-1))
		})
		if g.O.Harness {
			add(1, func() *m.Expr {
				g.stat("lz_and")
				return g.call("lz_and", g.expr(m.Bool, fuel-1), g.expr(m.Bool, fuel-1))
			})
			if g.O.LazyValues {
				add(1, func() *m.Expr { // a lazy function VALUE called through a non-identifier callee
					g.stat("dynamic-call-of-lazy-value")
					f := g.Var(LzAndT)
					return m.DCall(m.Index(m.ListE(f), m.Lit("num", "0")), g.expr(m.Bool, fuel-1), g.expr(m.Bool, fuel-1))
				})
			}
		}
	case m.TTime:
		add(3, func() *m.Expr { return g.literal(m.Time, 0) })
	case m.TList:
		if !hasBot {
			add(3, func() *m.Expr {
				g.stat("set-op")
				return g.call(pick(g.T, "setop", []string{"union", "intersect", "diff"}), g.expr(want, fuel-1), g.expr(want, fuel-1))
			})
			if g.O.Harness {
				add(1, func() *m.Expr {
					g.stat("hpair")
					return g.call("hpair", g.expr(want.El(), fuel-1), g.expr(want.El(), fuel-1))
				})
			}
		}
	}
	return alts[g.intn("alt", len(alts))]()
}

func (g *G) anyIndex() *m.Expr {
	if g.O.Partial || g.chance("wildidx", 1, 2) {
		x := Num(g.T)
		if !g.O.NonFinite && (math.IsNaN(x) || math.IsInf(x, 0)) {
			x = -1
		}
		return g.numLit(x)
	}
	return g.numLit(float64(g.intn("idx", 3)))
}

// listLen: the statically known length of a list expression (literal or
// variable), or -1.
func (g *G) listLen(e *m.Expr) int {
	switch e.K {
	case "list":
		return len(e.A)
	case "var":
		if v, ok := g.Vals[e.Name]; ok && v.T.K == m.TList {
			return len(v.L)
		}
	}
	return -1
}

func (g *G) indexList(want *m.Type, fuel int) *m.Expr {
	g.stat("index-list")
	var l *m.Expr
	if g.chance("litlist", 2, 3) {
		if g.chance("varlist", 1, 3) {
			l = g.Var(m.List(want))
		} else {
			l = g.literal(m.List(want), fuel)
		}
	} else {
		l = g.expr(m.List(want), fuel-1)
	}
	if g.O.Partial && g.chance("freeidx", 1, 2) {
		g.stat("free-index")
		return m.Index(l, g.anyIndex())
	}
	n := g.listLen(l)
	if n <= 0 {
		if g.O.Partial {
			return m.Index(l, m.Lit("num", "0"))
		}
		// guard: get-with-default instead of a subscript that might fail
		return g.call("get", l, m.Lit("num", "0"), g.expr(want, fuel-1))
	}
	i := g.intn("validx", n)
	if g.chance("fracidx", 1, 5) {
		return m.Index(l, m.Lit("num", strconv.Itoa(i)+".5"))
	}
	return m.Index(l, m.Lit("num", strconv.Itoa(i)))
}

func (g *G) indexMap(want *m.Type, fuel int) *m.Expr {
	g.stat("index-map")
	kt := pick(g.T, "mapkeyty", []*m.Type{m.Str, m.Num, m.Bool})
	mt := m.Map(kt, want)
	if g.chance("varmap", 1, 4) {
		v := g.Var(mt)
		if val, ok := g.Vals[v.Name]; ok && len(val.M) > 0 {
			k := val.M[g.intn("whichkey", len(val.M))].K
			if ke := g.litOf(k); ke != nil {
				return m.Index(v, ke)
			}
		}
		if g.O.Partial {
			return m.Index(v, g.keyExpr(kt, 0))
		}
		return g.call("get", v, g.keyExpr(kt, 0), g.expr(want, fuel-1))
	}
	if kt.K == m.TNum && g.chance("zerokey", 1, 8) {
		// a map holding the key 0, looked up with a computed zero - also the negative one
		g.stat("zero-key")
		zero := func() *m.Expr {
			switch g.intn("zeroform", 6) {
			case 0:
				return m.Prefix("-", m.Lit("num", "0"))
			case 1:
				return m.Infix("*", m.Lit("num", "0"), m.Prefix("-", m.Lit("num", "1")))
			case 2:
				return m.Call("round", m.Prefix("-", m.Lit("num", "0.4")))
			case 3:
				return m.Call("ceil", m.Prefix("-", m.Lit("num", "0.5")))
			case 4:
				return m.Infix("-", m.Lit("num", "1"), m.Lit("num", "1"))
			default:
				return m.Lit("num", "0")
			}
		}
		mp := m.MapE(zero(), g.expr(want, fuel-1), m.Lit("num", "1"), g.expr(want, fuel-1))
		return m.Index(mp, zero())
	}
	lit := g.literal(mt, fuel)
	if g.O.Partial && g.chance("freekey", 1, 3) {
		g.stat("free-key")
		return m.Index(lit, g.keyExpr(kt, 0))
	}
	// choose one of the literal's own keys (cloned)
	n := len(lit.A) / 2
	k := lit.A[2*g.intn("whichlitkey", n)]
	if k.K == "var" || !g.O.Partial {
		// keys that are variables or computed may coincide / differ unpredictably; literal keys are safe
	}
	return m.Index(lit, k.Clone())
}

// litOf: a literal expression denoting a primitive model value (nil if none).
func (g *G) litOf(v *m.Val) *m.Expr {
	switch v.T.K {
	case m.TNum:
		x := float64(v.N)
		if math.IsNaN(x) {
			return nil
		}
		return g.numLit(x)
	case m.TStr:
		if !validUTF8NoFFFD(v.S) {
			return nil
		}
		return g.strLit(v.S)
	case m.TBool:
		return m.Lit("bool", strconv.FormatBool(v.B))
	case m.TTime:
		return m.Lit("time", "'@"+strconv.FormatInt(v.Tm.Unix, 10)+"'")
	}
	return nil
}

// ---------------------------------------------------------------- parentheses

// Parenthesize inserts the parentheses a tree needs to print unambiguously:
// every operator-form operand of an operator form, receiver or callee is
// grouped (conservative; precedence itself is C08's subject).
func Parenthesize(e *m.Expr) *m.Expr {
	n := *e
	n.A = make([]*m.Expr, len(e.A))
	for i, a := range e.A {
		n.A[i] = Parenthesize(a)
	}
	wrap := func(i int) {
		if n.A[i].IsOperatorForm() {
			n.A[i] = m.Group(n.A[i])
		}
	}
	switch n.K {
	case "prefix", "postfix", "infix", "tern":
		for i := range n.A {
			wrap(i)
		}
	case "member", "index", "mcall", "dcall":
		wrap(0)
		// o.f(args) would read as method-call notation: a member callee is grouped
		if n.K == "dcall" && n.A[0].K == "member" {
			n.A[0] = m.Group(n.A[0])
		}
	}
	return &n
}

func (g *G) redundantGroups(e *m.Expr) *m.Expr {
	n := *e
	n.A = make([]*m.Expr, len(e.A))
	for i, a := range e.A {
		n.A[i] = g.redundantGroups(a)
	}
	if e.K != "group" && g.chance("redundant", 1, 12) {
		g.stat("redundant-parens")
		return m.Group(&n)
	}
	return &n
}

// AnyResultType draws the type of the whole program.
func (g *G) AnyResultType() *m.Type {
	switch g.intn("resultkind", 8) {
	case 0, 1:
		return m.Num
	case 2:
		return m.Bool
	case 3:
		return m.Str
	default:
		return g.anyType(3)
	}
}

// WrapTr wraps every operand position in tr(label, ·) with a unique label:
// call arguments (operator operands, conditional parts, receivers), list
// elements, map keys and values, object fields, subscript operands and the
// object of a member access. Apply before Parenthesize.
func WrapTr(e *m.Expr, next *int, keep func() bool) *m.Expr {
	n := *e
	n.A = make([]*m.Expr, len(e.A))
	bare := make([]bool, len(e.A))
	for i, a := range e.A {
		if keep != nil && keep() {
			// some operands stay entirely bare - no wrapper on or inside them (a back
			// end may treat call-free operands specially)
			n.A[i], bare[i] = a, true
			continue
		}
		n.A[i] = WrapTr(a, next, keep)
		if keep != nil && keep() {
			// ... and some keep their own head (a literal stays a literal, an operator
			// application stays one) while everything inside them is wrapped (a pass may
			// treat operands by their syntactic form)
			bare[i] = true
		}
	}
	wrap := func(i int) {
		if bare[i] || (n.A[i].K == "call" && n.A[i].Name == "tr") {
			return
		}
		*next++
		n.A[i] = m.Call("tr", m.Lit("num", strconv.Itoa(*next)), n.A[i])
	}
	switch n.K {
	case "list", "map", "obj", "index", "member", "prefix", "postfix", "infix", "tern", "mcall":
		for i := range n.A {
			wrap(i)
		}
	case "call":
		if n.Name != "tr" {
			for i := range n.A {
				wrap(i)
			}
		}
	case "dcall":
		for i := 1; i < len(n.A); i++ {
			wrap(i)
		}
	}
	return &n
}

// ExprTraced: like Expr, with every operand position wrapped in tr.
func (g *G) ExprTraced(want *m.Type) *m.Expr {
	e := g.expr(want, g.O.Fuel)
	next := 1000
	e = WrapTr(e, &next, func() bool { return g.chance("bare", 1, 6) })
	e = Parenthesize(e)
	if g.O.Sugar {
		e = g.redundantGroups(e)
	}
	return e
}

// ---------------------------------------------------------------- stress classes

// Stress builds programs that exceed the VM's initial stack (42 slots) and
// 8-bit ranges: kind ∈ deep-right, deep-calls, wide-list, wide-map, wide-obj,
// many-consts, long-arms, nested-thunks, many-args(needs harness overloads).
func Stress(t *rapid.T, kind string, n int) *m.Expr {
	return StressFixed(kind, n, rapid.Bool().Draw(t, "armsel"))
}

// StressFixed is Stress without random choices.
func StressFixed(kind string, n int, sel bool) *m.Expr {
	lit := func(i int) *m.Expr {
		if n > 5000 {
			return m.Lit("num", strconv.Itoa(i%10)) // keep huge sources short
		}
		return m.Lit("num", strconv.Itoa(i%1000))
	}
	switch kind {
	case "deep-right":
		e := lit(1)
		for i := 0; i < n; i++ {
			e = m.Infix("+", lit(i), m.Group(e))
		}
		return e
	case "deep-calls":
		e := lit(1)
		for i := 0; i < n; i++ {
			e = m.Call("max", lit(i), e)
		}
		return e
	case "wide-list":
		xs := make([]*m.Expr, n)
		for i := range xs {
			xs[i] = lit(i)
		}
		return m.Index(m.ListE(xs...), m.Lit("num", strconv.Itoa(n-1)))
	case "wide-list-len":
		xs := make([]*m.Expr, n)
		for i := range xs {
			xs[i] = lit(i)
		}
		return m.Call("len", m.ListE(xs...))
	case "wide-map":
		var kvs []*m.Expr
		for i := 0; i < n; i++ {
			kvs = append(kvs, m.Lit("num", strconv.Itoa(i)), lit(i+1))
		}
		return m.Index(m.MapE(kvs...), m.Lit("num", strconv.Itoa(n-1)))
	case "wide-obj":
		keys := make([]string, n)
		vals := make([]*m.Expr, n)
		for i := range keys {
			keys[i] = "f" + strconv.Itoa(i)
			vals[i] = lit(i)
		}
		return m.Member(m.ObjE(keys, vals), "f"+strconv.Itoa(n-1))
	case "long-arms":
		// conditional whose arms are longer than 255 bytes of code
		arm := func(k int) *m.Expr {
			xs := make([]*m.Expr, n)
			for i := range xs {
				xs[i] = lit(i + k)
			}
			return m.Call("len", m.ListE(xs...))
		}
		c := m.Infix("<", lit(1), lit(2))
		if sel {
			c = m.Infix(">", lit(1), lit(2))
		}
		return m.Infix("+", m.Group(m.Tern(c, arm(0), arm(1))), m.Group(m.Tern(m.Prefix("!", m.Group(c.Clone())), arm(2), m.Infix("+", arm(3), lit(1)))))
	case "long-then":
		// a conditional whose selected arm is one long left-nested sum (4 bytes of code per term)
		e := m.Lit("num", "1")
		for i := 1; i < n; i++ {
			e = m.Infix("+", e, m.Lit("num", "1"))
		}
		c := "true"
		if sel {
			c = "false"
			return m.Tern(m.Lit("bool", c), m.Lit("num", "0"), e)
		}
		return m.Tern(m.Lit("bool", c), e, m.Lit("num", "0"))
	case "many-args":
		// one call of a host-registered function of n parameters (ov, registered by the caller)
		args := make([]*m.Expr, n)
		for i := range args {
			args[i] = lit(i)
		}
		return m.Call("ov", args...)
	case "many-lazy-args":
		// the same for a lazy host function: n deferred arguments, the selected one is the last
		args := make([]*m.Expr, n)
		for i := range args {
			args[i] = lit(i)
		}
		return m.Call("lz_last", args...)
	case "nested-thunks":
		e := lit(7)
		for i := 0; i < n; i++ {
			c := "true"
			if i%3 == 0 {
				c = "false"
			}
			if i%2 == 0 {
				e = m.Call("lz_if", m.Lit("bool", c), e, lit(i))
			} else {
				e = m.Call("lz_pick", m.Lit("num", strconv.Itoa(i%5)), lit(i), e)
			}
		}
		return e
	case "nested-logic":
		e := m.Lit("bool", "true")
		for i := 0; i < n; i++ {
			op := "&&"
			if i%2 == 0 {
				op = "||"
			}
			e = m.Infix(op, m.Group(m.Infix("<", lit(i), lit(i+1))), m.Group(e))
		}
		return m.Tern(e, lit(1), lit(2))
	}
	panic("unknown stress kind " + kind)
}

var StressKinds = []string{"deep-right", "deep-calls", "wide-list", "wide-list-len", "wide-map", "wide-obj", "long-arms", "nested-thunks", "nested-logic", "many-args", "many-lazy-args"}

// LitOf: a deterministic literal expression denoting v (nil when v has no
// literal form: NaN / Inf, optionals, functions, invalid UTF-8, zones).
func LitOf(v *m.Val) *m.Expr {
	switch v.T.K {
	case m.TNum:
		x := float64(v.N)
		if math.IsNaN(x) || math.IsInf(x, 0) {
			return nil
		}
		ax := math.Abs(x)
		var txt string
		if ax == math.Trunc(ax) && ax < 1e21 {
			txt = strconv.FormatFloat(ax, 'f', -1, 64)
		} else if ax < 1e-6 || ax >= 1e21 {
			txt = strconv.FormatFloat(ax, 'e', -1, 64)
		} else {
			txt = strconv.FormatFloat(ax, 'f', -1, 64)
		}
		if math.Signbit(x) {
			return m.Prefix("-", m.Lit("num", txt))
		}
		return m.Lit("num", txt)
	case m.TStr:
		if !validUTF8NoFFFD(v.S) {
			return nil
		}
		return m.Lit("str", StrLitText(v.S, false, false))
	case m.TBool:
		return m.Lit("bool", strconv.FormatBool(v.B))
	case m.TTime:
		if v.Tm.Nano != 0 {
			return nil
		}
		return m.Lit("time", "'@"+strconv.FormatInt(v.Tm.Unix, 10)+"'")
	case m.TList:
		if len(v.L) == 0 && v.T.El().K != m.TBot {
			return nil // an empty literal would have type list[⊥]
		}
		xs := make([]*m.Expr, len(v.L))
		for i, e := range v.L {
			if xs[i] = LitOf(e); xs[i] == nil {
				return nil
			}
		}
		return m.ListE(xs...)
	case m.TMap:
		if len(v.M) == 0 && v.T.Key().K != m.TBot {
			return nil
		}
		var kvs []*m.Expr
		for _, e := range v.M {
			k, x := LitOf(e.K), LitOf(e.V)
			if k == nil || x == nil {
				return nil
			}
			kvs = append(kvs, k, x)
		}
		return m.MapE(kvs...)
	case m.TObj:
		keys := make([]string, len(v.L))
		vals := make([]*m.Expr, len(v.L))
		for i, e := range v.L {
			keys[i] = v.T.F[i].Name
			if vals[i] = LitOf(e); vals[i] == nil {
				return nil
			}
		}
		return m.ObjE(keys, vals)
	}
	return nil
}
