// Package gen holds the rapid generators. Every random choice goes through
// *rapid.T so that cases shrink and replay.
package gen

import (
	"pgregory.net/rapid"

	"verif/model"
)

// field-name pool: ASCII and non-ASCII identifiers, none reserved.
var FieldNames = []string{"a", "b", "c", "d", "id", "name", "val", "x1", "_k", "名", "é", "Ω", "ts"}

type TypeOpt struct {
	Depth     int  // maximum depth
	Vars      int  // number of type-variable names available (0: ground)
	Fun       bool // allow function types
	Maybe     bool // allow optional types
	Bot       bool // allow ⊥ as a container element
	MaxFields int
	// MaybeInFields: optionals only as the type of an object field (the only
	// place host data can express them)
	MaybeInFields bool
}

func pick[T any](t *rapid.T, label string, xs []T) T {
	return xs[rapid.IntRange(0, len(xs)-1).Draw(t, label)]
}

var varNames = []string{"a", "b", "c"}

func Prim(t *rapid.T) *model.Type {
	return pick(t, "prim", []*model.Type{model.Num, model.Str, model.Bool, model.Time})
}

// Key types for maps: primitives (or a variable when allowed).
func keyType(t *rapid.T, o TypeOpt) *model.Type {
	if o.Vars > 0 && rapid.IntRange(0, 3).Draw(t, "keyvar") == 0 {
		return model.Var(varNames[rapid.IntRange(0, o.Vars-1).Draw(t, "v")])
	}
	return Prim(t)
}

func Type(t *rapid.T, o TypeOpt) *model.Type {
	return typ(t, o, o.Depth)
}

func typ(t *rapid.T, o TypeOpt, d int) *model.Type {
	if o.MaxFields == 0 {
		o.MaxFields = 3
	}
	leaf := func() *model.Type {
		if o.Vars > 0 && rapid.IntRange(0, 2).Draw(t, "isvar") == 0 {
			return model.Var(varNames[rapid.IntRange(0, o.Vars-1).Draw(t, "v")])
		}
		return Prim(t)
	}
	if d <= 1 {
		return leaf()
	}
	kinds := []string{"leaf", "leaf", "list", "map", "obj"}
	if o.Maybe && !o.MaybeInFields {
		kinds = append(kinds, "maybe")
	}
	if o.Fun {
		kinds = append(kinds, "fun")
	}
	switch pick(t, "kind", kinds) {
	case "list":
		if o.Bot && rapid.IntRange(0, 5).Draw(t, "bot") == 0 {
			return model.List(model.Bot)
		}
		return model.List(typ(t, o, d-1))
	case "map":
		if o.Bot && rapid.IntRange(0, 5).Draw(t, "bot") == 0 {
			return model.Map(model.Bot, model.Bot)
		}
		return model.Map(keyType(t, o), typ(t, o, d-1))
	case "maybe":
		return model.Maybe(typ(t, o, d-1))
	case "fun":
		n := rapid.IntRange(0, 2).Draw(t, "nparam")
		ps := make([]*model.Type, n)
		for i := range ps {
			ps[i] = typ(t, o, d-1)
		}
		return model.Fun("f", ps, typ(t, o, d-1))
	case "obj":
		n := rapid.IntRange(0, o.MaxFields).Draw(t, "nfield")
		names := DistinctNames(t, n)
		fs := make([]model.Field, n)
		for i := range fs {
			ft := typ(t, o, d-1)
			if o.Maybe && o.MaybeInFields && ft.K != model.TMaybe && rapid.IntRange(0, 3).Draw(t, "optfield") == 0 {
				ft = model.Maybe(ft)
			}
			fs[i] = model.Field{Name: names[i], T: ft}
		}
		return model.Obj(fs...)
	}
	return leaf()
}

func DistinctNames(t *rapid.T, n int) []string {
	pool := append([]string(nil), FieldNames...)
	out := make([]string, 0, n)
	for i := 0; i < n; i++ {
		j := rapid.IntRange(0, len(pool)-1).Draw(t, "fname")
		out = append(out, pool[j])
		pool = append(pool[:j], pool[j+1:]...)
	}
	return out
}

// Perm draws a permutation of 0..n-1.
func Perm(t *rapid.T, n int) []int {
	p := make([]int, n)
	for i := range p {
		p[i] = i
	}
	for i := n - 1; i > 0; i-- {
		j := rapid.IntRange(0, i).Draw(t, "perm")
		p[i], p[j] = p[j], p[i]
	}
	return p
}

// PermuteType reorders the fields of every object in ty.
func PermuteType(t *rapid.T, ty *model.Type) *model.Type {
	return ty.Permute(func(n int) []int { return Perm(t, n) })
}

// Mutate returns a type that differs from ty in one place (or is unrelated).
func Mutate(t *rapid.T, ty *model.Type, o TypeOpt) *model.Type {
	switch ty.K {
	case model.TList, model.TMaybe:
		if rapid.Bool().Draw(t, "deep") {
			return &model.Type{K: ty.K, A: []*model.Type{Mutate(t, ty.A[0], o)}}
		}
	case model.TMap:
		if rapid.Bool().Draw(t, "deep") {
			if rapid.Bool().Draw(t, "key") {
				k := keyType(t, o)
				return model.Map(k, ty.A[1])
			}
			return model.Map(ty.A[0], Mutate(t, ty.A[1], o))
		}
	case model.TObj:
		if len(ty.F) > 0 && rapid.Bool().Draw(t, "deep") {
			i := rapid.IntRange(0, len(ty.F)-1).Draw(t, "fi")
			fs := append([]model.Field(nil), ty.F...)
			switch rapid.IntRange(0, 2).Draw(t, "how") {
			case 0:
				fs[i] = model.Field{Name: fs[i].Name, T: Mutate(t, fs[i].T, o)}
			case 1:
				fs = append(fs[:i:i], fs[i+1:]...)
			default:
				fs[i] = model.Field{Name: fs[i].Name + "2", T: fs[i].T}
			}
			return model.Obj(fs...)
		}
	}
	return Type(t, o)
}
