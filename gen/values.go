package gen

import (
	"math"

	"pgregory.net/rapid"

	"verif/model"
)

// NumPool: boundary numerics (section 3.2 of DESIGN.md).
var NumPool = func() []float64 {
	base := []float64{
		0, math.Copysign(0, -1), 1, -1, 2, 3, 0.5, -0.5, 1.5, 2.5, -2.5, 0.1, 10, 42, 99, 100, 255, 256, 1000,
		1e-9, -1e-9, 2e-9, 1e-10, 5e-10, 1 + 1e-9, 1 + 2e-9, 1 + 5e-10, 1 - 1e-9,
		9007199254740991, 9007199254740992, 9007199254740993, 9007199254740994, -9007199254740992,
		9223372036854775807, 9223372036854775808, 9223372036854777856, 9223372036854773760, -9223372036854775808, -9223372036854777856,
		1e15, 1e18, 1e19, 1e20, 1e21, 1e22, 1.5e300, 1.797e308, -1.797e308, 5e-324, 2.2250738585072014e-308,
		0.30000000000000004, 1.0 / 3.0, 123456.789, 4294967296, 2147483648, -2147483649, 65535, 65536,
	}
	return base
}()

var NonFinite = []float64{math.NaN(), math.Inf(1), math.Inf(-1)}

// SmallNums: friendly numbers for indices, sizes, etc.
var SmallNums = []float64{0, 1, 2, 3, -1, 0.5, 1.9, 2.0000000001, 5, 99, -0.5}

var StrPool = []string{
	"", "a", "b", "ab", "abc", "hello world", "A", "0", "1", "true", " ", "  x ", "a\"b", "it's", "back\\slash", "tab\there",
	"line\nbreak", "cr\rlf", "nul\x00byte", "bell\x07", "é", "日本語", "Ω≈ç", "é", "😀", "a😀b", " ", "%s %d", "[1, 2]", "{a: 1}",
	"--", "/*", "' OR 1=1 --", "`tick`", "a,b", "a: b", "(", "[a-z]+", "^a.*b$", "\\d+", "x*", "(?i)AbC",
}

// Absolute time texts (all read as UTC by the reference and, with TZ=UTC, by yae).
var TimeTexts = []string{
	"2020-01-02 03:04:05", "2020-01-02", "1999-12-31 23:59:59", "2000-02-29 12:00:00", "2038-01-19 03:14:08",
	"2021-06-15T10:20:30Z", "2021-06-15T10:20:30+08:00", "2021-06-15T10:20:30-05:00", "@0", "@1", "@86400", "@1600000000", "@2147483648",
	"1971-01-01 00:00:00", "2099-12-31 23:59:59", "2020-01-02 03:04",
	// fractional seconds (dropped: a time value counts whole seconds), alone and followed by a zone designator
	"2021-06-15T10:20:30.123+08:00", "2021-06-15T10:20:30.5-05:00", "2021-06-15T02:20:30.999Z", "2021-06-15 10:20:30.25", "2021-06-15T10:20:30.000001",
}

// Zones for host-data times.
var Zones = []model.TimeV{
	{Zone: ""}, {Zone: "Local"}, {Zone: "CST", Off: 8 * 3600}, {Zone: "EST", Off: -5 * 3600}, {Zone: "X", Off: 1800},
}

func Num(t *rapid.T) float64 {
	switch rapid.IntRange(0, 9).Draw(t, "numclass") {
	case 0, 1, 2, 3:
		return pick(t, "small", SmallNums)
	case 4, 5, 6:
		return pick(t, "pool", NumPool)
	case 7:
		x := pick(t, "pool", NumPool)
		d := pick(t, "delta", []float64{5e-10, -5e-10, 2e-9, -2e-9, 1, -1})
		return x + d
	case 8:
		if rapid.IntRange(0, 2).Draw(t, "nonfinite") == 0 {
			return pick(t, "nf", NonFinite) // callers that exclude NaN / Inf replace it
		}
		return float64(rapid.IntRange(-1000, 1000).Draw(t, "int"))
	default:
		return rapid.Float64().Draw(t, "f64")
	}
}

// FiniteNum never returns NaN / Inf.
func FiniteNum(t *rapid.T) float64 {
	x := Num(t)
	if math.IsNaN(x) || math.IsInf(x, 0) {
		return 7
	}
	return x
}

func Str(t *rapid.T) string {
	if rapid.IntRange(0, 5).Draw(t, "strclass") == 0 {
		return rapid.StringOfN(rapid.RuneFrom([]rune("ab \"\\\n\t'`é日😀0:,[]{}()")), 0, 6, -1).Draw(t, "str")
	}
	return pick(t, "strpool", StrPool)
}

func TimeVal(t *rapid.T, zones bool) model.TimeV {
	u := pick(t, "unix", []int64{0, 1, 86400, 1577934245, 1600000000, 2147483648, 946684799, 4102444799})
	if rapid.IntRange(0, 7).Draw(t, "far") == 0 {
		// centuries apart: years 2, 1600, 2400, 9999 (one year inside the four-digit range, so that no zone offset leaves it)
		u = pick(t, "farunix", []int64{-62104060800, -11676096000, 13569465600, 253370764800})
	}
	if rapid.IntRange(0, 3).Draw(t, "tadj") == 0 {
		u += int64(rapid.IntRange(-3, 3).Draw(t, "dt"))
	}
	tv := model.TimeV{Unix: u, Zone: "Local"}
	if !zones && rapid.Bool().Draw(t, "utcrepr") {
		// the same instants, held as UTC instead of Local (with TZ=UTC the two read and render
		// alike, but they are different Go representations of a time)
		tv.Zone = ""
	}
	if zones {
		z := pick(t, "zone", Zones)
		tv.Zone, tv.Off = z.Zone, z.Off
		if rapid.IntRange(0, 4).Draw(t, "ns") == 0 {
			tv.Nano = pick(t, "nano", []int{1, 500000000, 999999999})
		}
	}
	return tv
}

type ValOpt struct {
	MaxLen    int  // container sizes 0..MaxLen
	Zones     bool // times in several zones / with nanoseconds (host data only)
	NonFinite bool // allow NaN / Inf
	NoNothing bool // optionals always present
	// Clear: numbers inside one value are pairwise identical or differ by far
	// more than the tolerance (C18's domain); implemented by drawing integers and halves
	Clear bool
}

// Value draws a value of type ty (ground, ⊥ only for empty containers).
func Value(t *rapid.T, ty *model.Type, o ValOpt) *model.Val {
	if o.MaxLen == 0 {
		o.MaxLen = 3
	}
	switch ty.K {
	case model.TNum:
		if o.Clear {
			return model.VNum(pick(t, "clearnum", []float64{0, 1, 2, 3, -1, 0.5, 1.5, 100, 9, 10, 5.5, 2.5, math.Inf(1), math.Inf(-1), 1e15, 9007199254740992, 9007199254740994, 9223372036854775808, 1e19, 1e20, 1e21, -9223372036854775808, 123456.789, 1e-3}))
		}
		x := Num(t)
		if !o.NonFinite && (math.IsNaN(x) || math.IsInf(x, 0)) {
			x = 3
		}
		return model.VNum(x)
	case model.TStr:
		return model.VStr(Str(t))
	case model.TBool:
		return model.VBool(rapid.Bool().Draw(t, "b"))
	case model.TTime:
		return model.VTime(TimeVal(t, o.Zones))
	case model.TList:
		if ty.El().K == model.TBot {
			return &model.Val{T: ty}
		}
		n := rapid.IntRange(0, o.MaxLen).Draw(t, "len")
		v := &model.Val{T: ty}
		for i := 0; i < n; i++ {
			v.L = append(v.L, Value(t, ty.El(), o))
		}
		return v
	case model.TMap:
		v := &model.Val{T: ty}
		if ty.Key().K == model.TBot {
			return v
		}
		n := rapid.IntRange(0, o.MaxLen).Draw(t, "len")
		for i := 0; i < n; i++ {
			v.MapPut(Value(t, ty.Key(), o), Value(t, ty.Val(), o))
		}
		return v
	case model.TObj:
		v := &model.Val{T: ty}
		for _, f := range ty.F {
			v.L = append(v.L, Value(t, f.T, o))
		}
		return v
	case model.TMaybe:
		if !o.NoNothing && rapid.IntRange(0, 2).Draw(t, "nothing") == 0 {
			return model.VNothing(ty.El())
		}
		return model.VJust(ty.El(), Value(t, ty.El(), o))
	}
	panic("gen.Value: kind " + string(ty.K))
}

// PermuteVal rewrites every object occurrence in another field order.
func PermuteVal(t *rapid.T, v *model.Val) *model.Val {
	return v.Permute(func(n int) []int { return Perm(t, n) })
}
