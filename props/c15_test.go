package props

import (
	"fmt"
	"math"
	"reflect"
	"strings"
	"testing"
	"time"

	"github.com/goghcrow/yae"
	"github.com/goghcrow/yae/conv"
	"github.com/goghcrow/yae/types"
	"github.com/goghcrow/yae/val"
	"pgregory.net/rapid"

	"verif/gen"
	m "verif/model"
	"verif/run"
)

// C15 — host data converts faithfully and its type depends only on its Go shape.

// H describes a Go value together with its Go type.
type H struct {
	K      string   `json:"k"` // int int8.. uint64 float32 float64 bool string time ptr slice array map struct iface chan func complex uintptr
	N      m.F64    `json:"n,omitempty"`
	S      string   `json:"s,omitempty"`
	B      bool     `json:"b,omitempty"`
	Tm     *m.TimeV `json:"tm,omitempty"`
	Nil    bool     `json:"nil,omitempty"`   // ptr / slice / map / iface is nil
	Elem   *H       `json:"elem,omitempty"`  // ptr target, iface dynamic value; for slice/array/map: the element TYPE witness (used when empty)
	KeyT   *H       `json:"keyt,omitempty"`  // map key type witness
	Items  []*H     `json:"items,omitempty"` // slice / array elements, struct field values
	Keys   []*H     `json:"keys,omitempty"`  // map keys (parallel to Items)
	Fields []HF     `json:"fields,omitempty"`
	Alias  int      `json:"alias,omitempty"` // struct field of pointer type: 1 + index of the earlier sibling field whose (non-nil) pointer this field holds too
}

type HF struct {
	Go  string `json:"go"`
	Tag string `json:"tag,omitempty"` // raw struct tag
}

var numKinds = []string{"int", "int8", "int16", "int32", "int64", "uint", "uint8", "uint16", "uint32", "uint64", "float32", "float64"}

var kindTypes = map[string]reflect.Type{
	"int": reflect.TypeOf(int(0)), "int8": reflect.TypeOf(int8(0)), "int16": reflect.TypeOf(int16(0)), "int32": reflect.TypeOf(int32(0)), "int64": reflect.TypeOf(int64(0)),
	"uint": reflect.TypeOf(uint(0)), "uint8": reflect.TypeOf(uint8(0)), "uint16": reflect.TypeOf(uint16(0)), "uint32": reflect.TypeOf(uint32(0)), "uint64": reflect.TypeOf(uint64(0)),
	"float32": reflect.TypeOf(float32(0)), "float64": reflect.TypeOf(float64(0)), "bool": reflect.TypeOf(false), "string": reflect.TypeOf(""),
	"time": reflect.TypeOf(time.Time{}), "iface": reflect.TypeOf((*interface{})(nil)).Elem(),
	"chan": reflect.TypeOf(make(chan int)), "func": reflect.TypeOf(func() {}), "complex": reflect.TypeOf(complex128(0)), "uintptr": reflect.TypeOf(uintptr(0)),
}

func isNumKind(k string) bool {
	for _, n := range numKinds {
		if n == k {
			return true
		}
	}
	return false
}

// goType of the described value.
func (h *H) goType() reflect.Type {
	if t, okk := kindTypes[h.K]; okk {
		return t
	}
	switch h.K {
	case "ptr":
		return reflect.PointerTo(h.Elem.goType())
	case "slice":
		return reflect.SliceOf(h.Elem.goType())
	case "array":
		return reflect.ArrayOf(len(h.Items), h.Elem.goType())
	case "map":
		return reflect.MapOf(h.KeyT.goType(), h.Elem.goType())
	case "struct":
		fs := make([]reflect.StructField, len(h.Fields))
		for i, f := range h.Fields {
			fs[i] = reflect.StructField{Name: f.Go, Type: h.Items[i].goType(), Tag: reflect.StructTag(f.Tag)}
		}
		return reflect.StructOf(fs)
	}
	panic("goType " + h.K)
}

func (h *H) goValue() reflect.Value {
	rt := h.goType()
	v := reflect.New(rt).Elem()
	switch {
	case isNumKind(h.K):
		x := float64(h.N)
		switch rt.Kind() {
		case reflect.Float32, reflect.Float64:
			v.SetFloat(x)
		case reflect.Uint, reflect.Uint8, reflect.Uint16, reflect.Uint32, reflect.Uint64:
			v.SetUint(uint64(x))
		default:
			v.SetInt(int64(x))
		}
	case h.K == "bool":
		v.SetBool(h.B)
	case h.K == "string":
		v.SetString(h.S)
	case h.K == "time":
		v.Set(reflect.ValueOf(h.Tm.Go()))
	case h.K == "ptr":
		if !h.Nil {
			p := reflect.New(rt.Elem())
			p.Elem().Set(h.Elem.goValue())
			v.Set(p)
		}
	case h.K == "iface":
		if !h.Nil {
			v.Set(h.Elem.goValue())
		}
	case h.K == "slice":
		if !h.Nil {
			s := reflect.MakeSlice(rt, len(h.Items), len(h.Items))
			for i, it := range h.Items {
				s.Index(i).Set(it.goValue())
			}
			v.Set(s)
		}
	case h.K == "array":
		for i, it := range h.Items {
			v.Index(i).Set(it.goValue())
		}
	case h.K == "map":
		if !h.Nil {
			mp := reflect.MakeMapWithSize(rt, len(h.Items))
			for i, it := range h.Items {
				mp.SetMapIndex(h.Keys[i].goValue(), it.goValue())
			}
			v.Set(mp)
		}
	case h.K == "struct":
		for i, it := range h.Items {
			if j := it.Alias - 1; j >= 0 && j < i && it.K == "ptr" && !it.Nil && !h.Items[j].Nil && v.Field(j).Type() == v.Field(i).Type() {
				v.Field(i).Set(v.Field(j)) // one object reachable through two fields
				continue
			}
			v.Field(i).Set(it.goValue())
		}
	case h.K == "chan":
		v.Set(reflect.MakeChan(rt, 0))
	case h.K == "func":
		v.Set(reflect.ValueOf(func() {}))
	case h.K == "complex":
		v.SetComplex(complex(1, 2))
	case h.K == "uintptr":
		v.SetUint(7)
	}
	return v
}

// numeric value actually stored (after conversion to the Go kind), as a double
func (h *H) storedNum() float64 {
	return h.goValue().Convert(reflect.TypeOf(float64(0))).Float()
}

func parseTag(f HF) (name string, maybe bool) {
	name = f.Go
	tag := reflect.StructTag(f.Tag).Get("yae")
	parts := strings.Split(tag, ",")
	if len(parts) > 0 && strings.TrimSpace(parts[0]) != "" {
		name = strings.TrimSpace(parts[0])
	}
	if len(parts) > 1 && strings.ToLower(strings.TrimSpace(parts[1])) == "maybe" {
		maybe = true
	}
	return
}

type hostErr struct{ why string }

func (e *hostErr) Error() string { return e.why }

// typeOfShape: the yae type of a Go TYPE alone (pointers are transparent,
// optional only through the tag), as documented by the type mapping.
func typeOfShape(h *H, depth int) (*m.Type, error) {
	if depth > 100 {
		return nil, &hostErr{"nesting beyond the depth limit"}
	}
	switch {
	case isNumKind(h.K):
		return m.Num, nil
	case h.K == "bool":
		return m.Bool, nil
	case h.K == "string":
		return m.Str, nil
	case h.K == "time":
		return m.Time, nil
	case h.K == "ptr":
		t := h
		for t.K == "ptr" {
			t = t.Elem
		}
		return typeOfShape(t, depth)
	case h.K == "slice" || h.K == "array":
		el, err := typeOfShape(h.Elem, depth+1)
		if err != nil {
			return nil, err
		}
		return m.List(el), nil
	case h.K == "map":
		k, err := typeOfShape(h.KeyT, depth+1)
		if err != nil {
			return nil, err
		}
		if !k.IsPrim() {
			return nil, &hostErr{"map key is not primitive"}
		}
		v, err := typeOfShape(h.Elem, depth+1)
		if err != nil {
			return nil, err
		}
		return m.Map(k, v), nil
	case h.K == "struct":
		var fs []m.Field
		seen := map[string]bool{}
		for i, f := range h.Fields {
			name, maybe := parseTag(f)
			ft, err := typeOfShape(h.Items[i], depth+1)
			if err != nil {
				return nil, err
			}
			if maybe {
				ft = m.Maybe(ft)
			}
			if seen[name] {
				return nil, &hostErr{"duplicate field name " + name}
			}
			seen[name] = true
			fs = append(fs, m.Field{Name: name, T: ft})
		}
		return m.Obj(fs...), nil
	}
	return nil, &hostErr{"unsupported kind " + h.K}
}

// expect: the value (and thereby the type) the conversion should produce, or
// an error for unsupported / inconsistent data. unspec marks data whose
// treatment the documentation leaves open (empty interface-typed containers).
func expect(h *H, depth int) (v *m.Val, err error, unspec bool) {
	if depth > 100 {
		return nil, &hostErr{"nesting beyond the depth limit"}, false
	}
	through := false
	for h.K == "ptr" || h.K == "iface" {
		if h.Nil {
			return nil, &hostErr{"nil"}, false
		}
		h = h.Elem
		through = true
	}
	if through && (h.K == "slice" || h.K == "map") && h.Nil {
		// a nil slice / map behind a non-nil pointer or interface: not listed by the
		// property either as data or as an error
		return nil, nil, true
	}
	switch {
	case isNumKind(h.K):
		return m.VNum(h.storedNum()), nil, false
	case h.K == "bool":
		return m.VBool(h.B), nil, false
	case h.K == "string":
		return m.VStr(h.S), nil, false
	case h.K == "time":
		g := h.Tm.Go()
		name, off := g.Zone()
		z := name
		if g.Location() == time.UTC {
			z = ""
		} else if g.Location() == time.Local {
			z = "Local"
		}
		return m.VTime(m.TimeV{Unix: g.Unix(), Nano: g.Nanosecond(), Off: off, Zone: z}), nil, false
	case h.K == "slice" || h.K == "array":
		if h.K == "slice" && h.Nil {
			return nil, &hostErr{"nil slice"}, false
		}
		if len(h.Items) == 0 {
			if containsIface(h.Elem) {
				return nil, nil, true
			}
			et, err := typeOfShape(h.Elem, depth+1)
			if err != nil {
				return nil, err, false
			}
			return &m.Val{T: m.List(et)}, nil, false
		}
		out := &m.Val{}
		for i, it := range h.Items {
			x, err, u := expect(it, depth+1)
			if err != nil || u {
				return nil, err, u
			}
			if i > 0 && !m.Equal(x.T, out.L[0].T) {
				return nil, &hostErr{"elements of different types"}, false
			}
			out.L = append(out.L, x)
		}
		out.T = m.List(out.L[0].T)
		return out, nil, false
	case h.K == "map":
		if h.Nil {
			return nil, &hostErr{"nil map"}, false
		}
		if len(h.Items) == 0 {
			if containsIface(h.Elem) || containsIface(h.KeyT) {
				return nil, nil, true
			}
			kt, err := typeOfShape(h.KeyT, depth+1)
			if err != nil {
				return nil, err, false
			}
			vt, err := typeOfShape(h.Elem, depth+1)
			if err != nil {
				return nil, err, false
			}
			if !kt.IsPrim() {
				return nil, &hostErr{"map key is not primitive"}, false
			}
			return &m.Val{T: m.Map(kt, vt)}, nil, false
		}
		out := &m.Val{}
		var kt, vt *m.Type
		for i, it := range h.Items {
			k, err, u := expect(h.Keys[i], depth+1)
			if err != nil || u {
				return nil, err, u
			}
			x, err, u := expect(it, depth+1)
			if err != nil || u {
				return nil, err, u
			}
			if i == 0 {
				kt, vt = k.T, x.T
				if !kt.IsPrim() {
					return nil, &hostErr{"map key is not primitive"}, false
				}
			} else if !m.Equal(k.T, kt) || !m.Equal(x.T, vt) {
				return nil, &hostErr{"entries of different types"}, false
			}
			if out.MapGetExact(k) != nil {
				// two Go keys that denote the same number as doubles: outside the
				// generator's domain (keys are kept within ±2^53)
				return nil, nil, true
			}
			out.M = append(out.M, m.Entry{K: k, V: x})
		}
		out.T = m.Map(kt, vt)
		return out, nil, false
	case h.K == "struct":
		out := &m.Val{T: &m.Type{K: m.TObj}}
		seen := map[string]bool{}
		for i, f := range h.Fields {
			name, maybe := parseTag(f)
			it := h.Items[i]
			var x *m.Val
			if nilable(it) && it.Nil {
				ft, err := typeOfShape(it, 0)
				if err != nil {
					return nil, err, false
				}
				x = m.VNothing(ft)
			} else {
				var err error
				var u bool
				x, err, u = expect(it, depth+1)
				if err != nil || u {
					return nil, err, u
				}
				if maybe {
					x = m.VJust(x.T, x)
				}
			}
			if seen[name] {
				return nil, &hostErr{"duplicate field name " + name}, false
			}
			seen[name] = true
			out.T.F = append(out.T.F, m.Field{Name: name, T: x.T})
			out.L = append(out.L, x)
		}
		return out, nil, false
	}
	return nil, &hostErr{"unsupported kind " + h.K}, false
}

func nilable(h *H) bool {
	switch h.K {
	case "ptr", "slice", "map", "iface", "chan", "func":
		return true
	}
	return false
}

func containsIface(h *H) bool {
	if h == nil {
		return false
	}
	if h.K == "iface" {
		return true
	}
	if containsIface(h.Elem) || containsIface(h.KeyT) {
		return true
	}
	if h.K == "struct" {
		for _, it := range h.Items {
			if containsIface(it) {
				return true
			}
		}
	}
	return false
}

// stableType: no interface-typed or unsupported part in a type witness.
func stableType(h *H) bool {
	if h == nil {
		return true
	}
	switch h.K {
	case "iface", "chan", "func", "complex", "uintptr":
		return false
	}
	if !stableType(h.Elem) || !stableType(h.KeyT) {
		return false
	}
	if h.K == "struct" {
		for _, it := range h.Items {
			if !stableType(it) {
				return false
			}
		}
	}
	return true
}

// stable: no interface-typed part, and every nil-able part non-nil or declared optional.
func stable(h *H, taggedMaybe bool) bool {
	switch h.K {
	case "iface", "chan", "func", "complex", "uintptr":
		return false
	case "ptr":
		if h.Nil {
			return taggedMaybe && stableType(h.Elem)
		}
		return stable(h.Elem, false)
	case "slice", "map":
		if !stableType(h.Elem) || !stableType(h.KeyT) {
			return false
		}
		if h.Nil {
			return taggedMaybe
		}
		for _, it := range h.Items {
			if !stable(it, false) {
				return false
			}
		}
		for _, k := range h.Keys {
			if !stable(k, false) {
				return false
			}
		}
		return true
	case "array":
		if !stableType(h.Elem) {
			return false
		}
		for _, it := range h.Items {
			if it != nil && !stable(it, false) {
				return false
			}
		}
		return true
	case "struct":
		for i, it := range h.Items {
			_, maybe := parseTag(h.Fields[i])
			if !stable(it, maybe) {
				return false
			}
		}
		return true
	}
	return true
}

// ---------------------------------------------------------------- generator

type hostGen struct {
	t       *rapid.T
	errProb int // 1 in errProb chance of an error-class part (0: never)
}

var goFieldNames = []string{"A", "B", "C", "Dd", "E1", "Name", "Val"}

func (g *hostGen) typ(d int) *H {
	leaf := func() *H {
		switch rapid.IntRange(0, 9).Draw(g.t, "leafkind") {
		case 0:
			return &H{K: "bool"}
		case 1, 2:
			return &H{K: "string"}
		case 3:
			return &H{K: "time"}
		default:
			return &H{K: pick2(g.t, numKinds)}
		}
	}
	if d <= 0 {
		return leaf()
	}
	if g.errProb > 0 && rapid.IntRange(0, g.errProb-1).Draw(g.t, "errkind") == 0 {
		return &H{K: pick2(g.t, []string{"chan", "func", "complex", "uintptr"})}
	}
	switch rapid.IntRange(0, 9).Draw(g.t, "kind") {
	case 0:
		return &H{K: "ptr", Elem: g.typ(d - 1)}
	case 1, 2:
		return &H{K: "slice", Elem: g.typ(d - 1)}
	case 3:
		return &H{K: "array", Elem: g.typ(d - 1), Items: make([]*H, rapid.IntRange(0, 3).Draw(g.t, "alen"))}
	case 4:
		kt := pick2(g.t, []*H{{K: "string"}, {K: "int"}, {K: "float64"}, {K: "bool"}, {K: "uint8"}, {K: "time"}, {K: "int64"}})
		return &H{K: "map", KeyT: kt, Elem: g.typ(d - 1)}
	case 5, 6:
		n := rapid.IntRange(0, 3).Draw(g.t, "nfields")
		h := &H{K: "struct"}
		names := append([]string(nil), goFieldNames...)
		for i := 0; i < n; i++ {
			j := rapid.IntRange(0, len(names)-1).Draw(g.t, "gofield")
			goName := names[j]
			names = append(names[:j], names[j+1:]...)
			ft := g.typ(d - 1)
			tag := ""
			yname := pick2(g.t, []string{"", strings.ToLower(goName), "名", "x_" + goName})
			switch rapid.IntRange(0, 4).Draw(g.t, "tagform") {
			case 0:
			case 1:
				tag = fmt.Sprintf(`yae:"%s"`, yname)
			case 2:
				if nilable(ft) {
					tag = fmt.Sprintf(`yae:"%s,maybe"`, yname)
				} else {
					tag = fmt.Sprintf(`yae:"%s"`, yname)
				}
			case 3:
				if nilable(ft) {
					tag = `yae:",maybe"`
				}
			default:
				tag = fmt.Sprintf(`json:"j" yae:" %s , Maybe "`, yname)
				if !nilable(ft) {
					tag = fmt.Sprintf(`json:"j" yae:" %s "`, yname)
				}
			}
			h.Fields = append(h.Fields, HF{Go: goName, Tag: tag})
			h.Items = append(h.Items, ft)
		}
		return h
	case 7:
		return &H{K: "iface", Elem: g.typ(d - 1)}
	default:
		return leaf()
	}
}

// fill draws a value for the type described by ty (a copy with values).
func (g *hostGen) fill(ty *H, allowNil bool) *H {
	h := &H{K: ty.K, Fields: ty.Fields}
	switch {
	case isNumKind(ty.K):
		x := pick2(g.t, []float64{0, 1, 2, 3, 7, 100, 127, 200, 255, 1000, 65535, 1e6, 2147483647, 4294967295, 9007199254740991, 9007199254740993, 1.8e19, -1, -128, -32768, -2147483648, -9007199254740993, 0.5, 2.75, 1e-3})
		h.N = m.F64(clampNum(x, ty.K))
	case ty.K == "bool":
		h.B = rapid.Bool().Draw(g.t, "b")
	case ty.K == "string":
		h.S = gen.Str(g.t)
		if rapid.IntRange(0, 15).Draw(g.t, "badutf8") == 0 {
			h.S += "\xff\xfe"
		}
	case ty.K == "time":
		tv := gen.TimeVal(g.t, true)
		h.Tm = &tv
	case ty.K == "ptr":
		h.Elem = ty.Elem
		if allowNil && rapid.IntRange(0, 3).Draw(g.t, "nilptr") == 0 {
			h.Nil = true
		} else {
			h.Elem = g.fill(ty.Elem, allowNil)
		}
	case ty.K == "iface":
		h.Elem = ty.Elem
		if allowNil && rapid.IntRange(0, 6).Draw(g.t, "nilif") == 0 {
			h.Nil = true
		} else {
			// the dynamic value: usually of the witness type, sometimes another one, sometimes
			// the witness type with its struct fields declared in another order (an equal yae
			// type, but another Go type with another field layout)
			switch od := rapid.IntRange(0, 7).Draw(g.t, "otherdyn"); {
			case od == 0:
				h.Elem = g.fill(g.typ(1), allowNil)
			case od <= 2 && hasMultiFieldStruct(ty.Elem):
				h.Elem = g.fill(g.permuteStructs(ty.Elem), allowNil)
			default:
				h.Elem = g.fill(ty.Elem, allowNil)
			}
		}
	case ty.K == "slice" || ty.K == "array":
		h.Elem = ty.Elem
		if ty.K == "slice" && allowNil && rapid.IntRange(0, 5).Draw(g.t, "nilslice") == 0 {
			h.Nil = true
			break
		}
		n := rapid.IntRange(0, 3).Draw(g.t, "len")
		if ty.K == "array" {
			n = len(ty.Items)
		}
		h.Items = make([]*H, 0, n)
		for i := 0; i < n; i++ {
			h.Items = append(h.Items, g.fill(ty.Elem, allowNil))
		}
	case ty.K == "map":
		h.Elem, h.KeyT = ty.Elem, ty.KeyT
		if allowNil && rapid.IntRange(0, 5).Draw(g.t, "nilmap") == 0 {
			h.Nil = true
			break
		}
		n := rapid.IntRange(0, 3).Draw(g.t, "len")
		seen := map[string]bool{}
		for i := 0; i < n; i++ {
			k := g.fill(ty.KeyT, false)
			ks := fmt.Sprint(k.goValue().Interface())
			if seen[ks] {
				continue
			}
			seen[ks] = true
			h.Keys = append(h.Keys, k)
			h.Items = append(h.Items, g.fill(ty.Elem, allowNil))
		}
	case ty.K == "struct":
		for _, ft := range ty.Items {
			h.Items = append(h.Items, g.fill(ft, allowNil))
		}
	}
	return h
}

func hasMultiFieldStruct(ty *H) bool {
	if ty == nil {
		return false
	}
	if ty.K == "struct" && len(ty.Fields) >= 2 {
		return true
	}
	if hasMultiFieldStruct(ty.Elem) {
		return true
	}
	for _, it := range ty.Items {
		if hasMultiFieldStruct(it) {
			return true
		}
	}
	return false
}

// permuteStructs: the same type description with every struct's fields in a drawn order.
func (g *hostGen) permuteStructs(ty *H) *H {
	if ty == nil {
		return nil
	}
	n := *ty
	n.Elem = g.permuteStructs(ty.Elem)
	n.KeyT = ty.KeyT
	n.Items = make([]*H, len(ty.Items))
	for i, it := range ty.Items {
		n.Items[i] = g.permuteStructs(it)
	}
	if ty.K == "struct" && len(ty.Fields) >= 2 {
		perm := make([]int, len(ty.Fields))
		for i := range perm {
			perm[i] = i
		}
		for i := len(perm) - 1; i > 0; i-- {
			j := rapid.IntRange(0, i).Draw(g.t, "fieldperm")
			perm[i], perm[j] = perm[j], perm[i]
		}
		fs, its := make([]HF, len(perm)), make([]*H, len(perm))
		for i, p := range perm {
			fs[i], its[i] = ty.Fields[p], n.Items[p]
		}
		n.Fields, n.Items = fs, its
	}
	return &n
}

func clampNum(x float64, kind string) float64 {
	lim := map[string][2]float64{"int8": {-128, 127}, "int16": {-32768, 32767}, "int32": {-2147483648, 2147483647}, "int": {-9.2e18, 9.2e18}, "int64": {-9.2e18, 9.2e18},
		"uint8": {0, 255}, "uint16": {0, 65535}, "uint32": {0, 4294967295}, "uint": {0, 1.8e19}, "uint64": {0, 1.8e19}}
	if l, okk := lim[kind]; okk {
		x = math.Trunc(x)
		if x < l[0] {
			x = l[0]
		}
		if x > l[1] {
			x = l[1]
		}
	}
	return x
}

type HostCase struct {
	V1 *H `json:"v1"`
	V2 *H `json:"v2,omitempty"` // another value of the same Go type
}

func genHostCase(t *rapid.T) *HostCase {
	g := &hostGen{t: t}
	if rapid.IntRange(0, 5).Draw(t, "witherrors") == 0 {
		g.errProb = 6
	}
	ty := g.typ(rapid.IntRange(1, 4).Draw(t, "depth"))
	if rapid.IntRange(0, 9).Draw(t, "rows") == 0 {
		// "rows": a slice (or map, or struct field) of interface values holding structs of 2-3
		// fields - the elements may be of Go types that declare those fields in different orders
		row := &H{K: "struct"}
		n := rapid.IntRange(2, 3).Draw(t, "rowfields")
		for i := 0; i < n; i++ {
			row.Fields = append(row.Fields, HF{Go: goFieldNames[i], Tag: pick2(t, []string{"", fmt.Sprintf(`yae:"f%d"`, i)})})
			row.Items = append(row.Items, pick2(t, []*H{{K: "int"}, {K: "string"}, {K: "float64"}, {K: "bool"}, {K: "slice", Elem: &H{K: "int"}}, {K: "time"}}))
		}
		el := &H{K: "iface", Elem: row}
		switch rapid.IntRange(0, 2).Draw(t, "rowscontainer") {
		case 0:
			ty = &H{K: "slice", Elem: el}
		case 1:
			ty = &H{K: "map", KeyT: &H{K: "string"}, Elem: el}
		default:
			ty = &H{K: "struct", Fields: []HF{{Go: "Rows", Tag: `yae:"rows"`}, {Go: "N", Tag: ""}}, Items: []*H{{K: "slice", Elem: el}, {K: "int"}}}
		}
	}
	if rapid.IntRange(0, 11).Draw(t, "mixedmap") == 0 {
		// a map (or slice) whose static element type is concrete but has an interface-typed or
		// nil-able part inside: the entries may differ in that part (inconsistent data)
		inner := pick2(t, []*H{
			{K: "slice", Elem: &H{K: "iface", Elem: pick2(t, []*H{{K: "int"}, {K: "string"}})}},
			{K: "struct", Fields: []HF{{Go: "P"}, {Go: "N"}}, Items: []*H{{K: "ptr", Elem: &H{K: "int"}}, {K: "int"}}},
			{K: "struct", Fields: []HF{{Go: "F", Tag: `yae:"f"`}}, Items: []*H{{K: "iface", Elem: &H{K: "float64"}}}},
			{K: "struct", Fields: []HF{{Go: "S"}}, Items: []*H{{K: "slice", Elem: &H{K: "string"}}}},
			{K: "map", KeyT: &H{K: "string"}, Elem: &H{K: "iface", Elem: &H{K: "bool"}}},
		})
		if rapid.Bool().Draw(t, "mixedslice") {
			ty = &H{K: "slice", Elem: inner}
		} else {
			ty = &H{K: "map", KeyT: pick2(t, []*H{{K: "string"}, {K: "int"}}), Elem: inner}
		}
	}
	aliased := rapid.IntRange(0, 7).Draw(t, "aliased") == 0
	if aliased {
		// one object reachable through two pointer fields of one struct (the fields declared optional or
		// not independently): conversion sees the same address twice
		tgt := pick2(t, []*H{{K: "int"}, {K: "string"}, {K: "struct", Fields: []HF{{Go: "A", Tag: `yae:"a"`}, {Go: "B"}}, Items: []*H{{K: "float64"}, {K: "string"}}}, {K: "slice", Elem: &H{K: "int"}}})
		tags := [][2]string{{`yae:"p,maybe"`, `yae:"q"`}, {`yae:"p"`, `yae:"q,maybe"`}, {"", ""}, {`yae:"p,maybe"`, `yae:"q,maybe"`}}[rapid.IntRange(0, 3).Draw(t, "aliastags")]
		ty = &H{K: "struct", Fields: []HF{{Go: "P", Tag: tags[0]}, {Go: "N"}, {Go: "Q", Tag: tags[1]}}, Items: []*H{{K: "ptr", Elem: tgt}, {K: "int"}, {K: "ptr", Elem: tgt}}}
		if rapid.Bool().Draw(t, "aliasinlist") {
			ty = &H{K: "slice", Elem: ty}
		}
	}
	alias := func(h *H) {
		var rows []*H
		if h.K == "struct" {
			rows = []*H{h}
		} else if !h.Nil {
			rows = h.Items
		}
		for _, r := range rows {
			if !r.Items[0].Nil && !r.Items[2].Nil && rapid.IntRange(0, 2).Draw(t, "share") > 0 {
				r.Items[2].Elem, r.Items[2].Alias = r.Items[0].Elem, 1
			}
		}
	}
	c := &HostCase{V1: g.fill(ty, true)}
	// second value: same Go type (arrays keep their length through the filled witness)
	c.V2 = g.fill(typeWitness(c.V1), true)
	if aliased {
		alias(c.V1)
		if rapid.Bool().Draw(t, "aliasboth") {
			alias(c.V2)
		}
	}
	return c
}

// typeWitness strips values but keeps what determines the Go type (array lengths).
func typeWitness(h *H) *H {
	w := &H{K: h.K, Fields: h.Fields}
	switch h.K {
	case "ptr", "iface":
		w.Elem = typeWitness(h.Elem)
	case "slice":
		w.Elem = typeWitness(h.Elem)
	case "array":
		w.Elem = typeWitness(h.Elem)
		w.Items = make([]*H, len(h.Items))
	case "map":
		w.Elem, w.KeyT = typeWitness(h.Elem), typeWitness(h.KeyT)
	case "struct":
		for _, it := range h.Items {
			w.Items = append(w.Items, typeWitness(it))
		}
	}
	return w
}

// ---------------------------------------------------------------- check

func guardConv(f func()) *run.Panic { return run.Guard(f) }

func convertOne(h *H) (v *val.Val, verr error, ty *types.Type, terr error, p *run.Panic, goV interface{}) {
	p = guardConv(func() {
		goV = h.goValue().Interface()
		v, verr = conv.ValOf(goV)
		ty, terr = conv.TypeOf(goV)
	})
	return
}

func checkHost(c *HostCase) *Outcome {
	want, werr, unspec := expect(c.V1, 0)
	if unspec {
		return skip("unspecified:empty-interface-typed-container-or-colliding-keys")
	}
	v, verr, ty, terr, p, goV := convertOne(c.V1)
	desc := fmt.Sprintf("Go value %#v", goV)
	if len(desc) > 900 {
		desc = desc[:900] + "..."
	}
	if p != nil {
		return bad("conversion panicked: %s (%s)", p.Text, desc)
	}
	classes := []string{}
	if werr != nil {
		classes = append(classes, "error-class")
		if verr == nil {
			return bad("unsupported / inconsistent data (%v) converted to %s instead of an error (%s)", werr, renderVal(v), desc)
		}
		return ok(true, classes...)
	}
	if verr != nil {
		return bad("conversion failed: %v; expected %s : %s (%s)", verr, want.Render(), want.T, desc)
	}
	// (1) the type reported for the same Go value
	if terr != nil {
		return bad("ValOf succeeds but TypeOf fails: %v (%s)", terr, desc)
	}
	if !types.Equals(v.Type, ty) || !m.Equal(run.FromYaeType(v.Type), run.FromYaeType(ty)) {
		return bad("ValOf(v).Type = %s but TypeOf(v) = %s (%s)", v.Type, ty, desc)
	}
	// (2) well-formed, (3) faithful
	got, probs := run.FromYaeVal(v, want.T)
	if len(probs) > 0 || got == nil {
		return bad("converted value is not a well-formed %s: %v (%s)", want.T, probs, desc)
	}
	if !m.Identical(got, want) || !sameFieldOrder(got, want) {
		return bad("converted value %s : %s, the Go value denotes %s : %s (%s)", got.Render(), got.T.OrderString(), want.Render(), want.T.OrderString(), desc)
	}
	// (3b) a second value of the same Go type, converted afterwards in the same
	// process, is converted just as faithfully (nothing learnt from the first
	// value may leak into the second)
	if c.V2 != nil {
		want2, werr2, unspec2 := expect(c.V2, 0)
		if !unspec2 {
			v2, verr2, _, _, p2, goV2 := convertOne(c.V2)
			if p2 != nil {
				return bad("conversion of a second value panicked: %s (%#v)", p2.Text, goV2)
			}
			if werr2 != nil && verr2 == nil {
				return bad("second value of the same Go type: unsupported / inconsistent data (%v) converted to %s (first value %s; second %#v)", werr2, renderVal(v2), desc, goV2)
			}
			if werr2 == nil {
				if verr2 != nil {
					return bad("second value of the same Go type rejected: %v (first value %s; second %#v)", verr2, desc, goV2)
				}
				got2, probs2 := run.FromYaeVal(v2, want2.T)
				if len(probs2) > 0 || got2 == nil || !m.Identical(got2, want2) {
					return bad("second value of the same Go type converts to %s, it denotes %s : %s; problems %v (first value %s; second %#v)", renderVal(v2), want2.Render(), want2.T, probs2, desc, goV2)
				}
				classes = append(classes, "second-value-of-same-go-type")
			}
		}
	}
	// (4) the type depends only on the Go shape, for the stable class
	st1 := stable(c.V1, false)
	if c.V2 != nil && st1 && stable(c.V2, false) {
		want2, werr2, unspec2 := expect(c.V2, 0)
		if !unspec2 && werr2 == nil {
			v2, verr2, ty2, terr2, p2, goV2 := convertOne(c.V2)
			if p2 != nil || verr2 != nil || terr2 != nil {
				return bad("second value of the same Go type does not convert: %v %v %v (%#v)", p2, verr2, terr2, goV2)
			}
			if !types.Equals(ty, ty2) || !m.Equal(want.T, want2.T) || !m.Equal(run.FromYaeType(ty2), want2.T) {
				return bad("two values of one Go type have types %s and %s (%s / %#v)", ty, ty2, desc, goV2)
			}
			_ = v2
			classes = append(classes, "stable-pair")
			// an expression compiled against the first value accepts the second
			if want.T.K == m.TObj && len(want.T.F) > 0 {
				src := want.T.F[0].Name
				if okIdent(src) {
					var e1, e2 error
					pp := run.Guard(func() {
						callable, cerr := yae.NewExpr().Compile(src, goV)
						if cerr != nil {
							e1 = cerr
							return
						}
						_, e2 = callable(goV2)
					})
					if pp != nil && !strings.Contains(pp.Text, "env.parent") {
						return bad("compile-against-one, run-with-another panicked: %s", pp.Text)
					}
					if e1 == nil && e2 != nil {
						return bad("an expression compiled against one value of a Go type rejects another value of that type: %v (%s / %#v)", e2, desc, goV2)
					}
					classes = append(classes, "callable-accepts-sibling")
				}
			}
		}
	}
	// environments
	if want.T.K == m.TObj {
		te, terr := conv.TypeEnvOf(goV)
		ve, verr := conv.ValEnvOf(goV)
		if terr != nil || verr != nil {
			return bad("struct converts as a value but not as an environment: %v %v (%s)", terr, verr, desc)
		}
		for i, f := range want.T.F {
			t1, ok1 := te.Get(f.Name)
			v1, ok2 := ve.Get(f.Name)
			if !ok1 || !ok2 {
				return bad("environment lacks field %s (%s)", f.Name, desc)
			}
			if !m.Equal(run.FromYaeType(t1), f.T) {
				return bad("environment types %s as %s, the value's field has type %s", f.Name, t1, f.T)
			}
			gv, pr := run.FromYaeVal(v1, f.T)
			if len(pr) > 0 || !m.Identical(gv, want.L[i]) {
				return bad("environment binds %s to %s, the field is %s", f.Name, renderVal(v1), want.L[i].Render())
			}
		}
		classes = append(classes, "as-environment")
	}
	depth, feat := hostFeatures(c.V1)
	for k := range feat {
		classes = append(classes, "has:"+k)
	}
	if st1 {
		classes = append(classes, "stable-class")
	}
	return ok(depth >= 2 && len(feat) > 0, classes...)
}

func okIdent(s string) bool {
	if s == "" {
		return false
	}
	for i, r := range s {
		if !(r == '_' || (r >= 'a' && r <= 'z') || (r >= 'A' && r <= 'Z') || r >= 0x80 || (i > 0 && r >= '0' && r <= '9')) {
			return false
		}
	}
	switch s {
	case "true", "false", "and", "or", "not":
		return false
	}
	return !refReserved(s)
}

func sameFieldOrder(a, b *m.Val) bool {
	if a.T.K != b.T.K {
		return false
	}
	switch a.T.K {
	case m.TObj:
		if a.T.OrderString() != b.T.OrderString() {
			return false
		}
		for i := range a.L {
			if !sameFieldOrder(a.L[i], b.L[i]) {
				return false
			}
		}
	case m.TList:
		for i := range a.L {
			if !sameFieldOrder(a.L[i], b.L[i]) {
				return false
			}
		}
	case m.TMaybe:
		if a.P != nil && b.P != nil {
			return sameFieldOrder(a.P, b.P)
		}
	}
	return true
}

func hostFeatures(h *H) (depth int, feat map[string]bool) {
	feat = map[string]bool{}
	var w func(x *H) int
	w = func(x *H) int {
		if x == nil {
			return 0
		}
		d := 0
		switch x.K {
		case "ptr":
			feat["pointer"] = true
			if x.Alias > 0 {
				feat["aliased-pointer-fields"] = true
			}
			if !x.Nil {
				d = w(x.Elem)
			}
			return d
		case "iface":
			feat["interface-element"] = true
			if !x.Nil {
				d = w(x.Elem)
			}
			return d
		case "map":
			feat["map"] = true
		case "struct":
			for _, f := range x.Fields {
				if f.Tag != "" {
					feat["tagged-field"] = true
				}
			}
		case "time":
			feat["time"] = true
		}
		for _, it := range x.Items {
			if k := w(it); k > d {
				d = k
			}
		}
		return d + 1
	}
	depth = w(h)
	return
}

var c15 = Register(&Prop[HostCase]{ID: "C15", Name: "host-conversion", Gen: genHostCase, Check: checkHost})

// ---- fixed error classes that reflection cannot build by generation

type selfPtr *selfPtr

type recNode struct {
	V    int
	Next *recNode
}

type recTree struct {
	V    int
	Kids []*recTree
}

type ringNode struct {
	Name string
	Peer *ringNode
}

func fixedHostNames() []string {
	names := make([]string, 0, len(fixedHost))
	for n := range fixedHost {
		names = append(names, n)
	}
	sortStringsInPlace(names)
	return names
}

type FixedHostCase struct {
	Name string `json:"name"`
}

func deepSlice(n int) interface{} {
	var v interface{} = 1
	for i := 0; i < n; i++ {
		v = []interface{}{v}
	}
	return v
}

var fixedHost = map[string]func() (v interface{}, wantErr bool){
	// distinct Go keys that are one number as doubles: a faithful conversion does not exist
	"colliding-int64-keys": func() (interface{}, bool) { return map[int64]string{1 << 53: "a", 1<<53 + 1: "b"}, true },
	"colliding-uint64-keys": func() (interface{}, bool) {
		return struct{ M map[uint64]bool }{map[uint64]bool{1<<63 + 1: true, 1 << 63: false, 7: true}}, true
	},
	"nil":                     func() (interface{}, bool) { return nil, true },
	"typed-nil-pointer":       func() (interface{}, bool) { return (*int)(nil), true },
	"typed-nil-struct-ptr":    func() (interface{}, bool) { return (*recNode)(nil), true },
	"nil-slice":               func() (interface{}, bool) { return []int(nil), true },
	"nil-map":                 func() (interface{}, bool) { return map[string]int(nil), true },
	"mixed-iface-slice":       func() (interface{}, bool) { return []interface{}{1, "a"}, true },
	"mixed-iface-map":         func() (interface{}, bool) { return map[string]interface{}{"a": 1, "b": "x"}, true },
	"nil-in-iface-slice":      func() (interface{}, bool) { return []interface{}{1, nil}, true },
	"chan":                    func() (interface{}, bool) { return make(chan int), true },
	"func":                    func() (interface{}, bool) { return func() {}, true },
	"complex":                 func() (interface{}, bool) { return complex(1, 2), true },
	"uintptr":                 func() (interface{}, bool) { return uintptr(1), true },
	"struct-with-chan":        func() (interface{}, bool) { return struct{ C chan int }{make(chan int)}, true },
	"nested-101":              func() (interface{}, bool) { return deepSlice(102), true },
	"nested-50":               func() (interface{}, bool) { return deepSlice(50), false },
	"recursive-type":          func() (interface{}, bool) { return recNode{1, &recNode{2, nil}}, true },
	"recursive-type-nil-link": func() (interface{}, bool) { return recNode{V: 1}, true },
	"recursive-tree-nil-kids": func() (interface{}, bool) { return recTree{V: 1}, true },
	"cyclic-map": func() (interface{}, bool) {
		mp := map[string]interface{}{}
		mp["self"] = mp
		return mp, true
	},
	"cyclic-slice": func() (interface{}, bool) {
		sl := make([]interface{}, 1)
		sl[0] = sl
		return sl, true
	},
	"struct-ring": func() (interface{}, bool) {
		a, b := &ringNode{Name: "a"}, &ringNode{Name: "b"}
		a.Peer, b.Peer = b, a
		return a, true
	},
	"nested-101-in-struct":               func() (interface{}, bool) { return struct{ V interface{} }{deepSlice(102)}, true },
	"pointer-to-pointer":                 func() (interface{}, bool) { x := 5; p := &x; return &p, false },
	"struct-key-map":                     func() (interface{}, bool) { return map[struct{ A int }]int{{1}: 1}, true },
	"self-referential-interface-pointer": func() (interface{}, bool) { var x interface{}; x = &x; return x, true },
	"self-referential-pointer-type":      func() (interface{}, bool) { var p selfPtr; p = &p; return p, true },
	"struct-with-self-referential-field": func() (interface{}, bool) {
		var x interface{}
		x = &x
		return struct{ A interface{} }{x}, true
	},
	"duplicate-tag-names": func() (interface{}, bool) {
		return struct {
			A int `yae:"x"`
			B int `yae:"x"`
		}{1, 2}, true
	},
}

func checkFixedHost(c *FixedHostCase) *Outcome {
	mk, okk := fixedHost[c.Name]
	if !okk {
		return skip("unknown-fixed-case")
	}
	goV, wantErr := mk()
	var v *val.Val
	var verr error
	var p *run.Panic
	if !returnsWithin(10*time.Second, func() { p = run.Guard(func() { v, verr = conv.ValOf(goV) }) }) {
		return bad("%s: ValOf does not return (still running after 10 s)", c.Name)
	}
	if p != nil {
		return bad("%s: ValOf panicked: %s", c.Name, p.Text)
	}
	if wantErr && verr == nil {
		return bad("%s: converted to %s instead of an error", c.Name, renderVal(v))
	}
	if !wantErr && verr != nil {
		return bad("%s: supported data rejected: %v", c.Name, verr)
	}
	var ee error
	if !returnsWithin(10*time.Second, func() { p = run.Guard(func() { _, ee = conv.TypeOf(goV) }) }) {
		return bad("%s: TypeOf does not return (still running after 10 s)", c.Name)
	}
	if p != nil {
		return bad("%s: TypeOf panicked: %s", c.Name, p.Text)
	}
	if !wantErr && ee != nil {
		return bad("%s: TypeOf rejects supported data: %v", c.Name, ee)
	}
	for _, f := range []func() error{
		func() error { _, e := conv.TypeEnvOf(goV); return e },
		func() error { _, e := conv.ValEnvOf(goV); return e },
	} {
		f := f
		var pp *run.Panic
		if !returnsWithin(10*time.Second, func() { pp = run.Guard(func() { _ = f() }) }) {
			return bad("%s: environment conversion does not return (still running after 10 s)", c.Name)
		}
		if pp != nil {
			return bad("%s: environment conversion panicked: %s", c.Name, pp.Text)
		}
	}
	// the public entry points with this value as environment
	var eerr error
	if !returnsWithin(10*time.Second, func() { pp := run.Guard(func() { _, eerr = yae.Eval("1", goV) }); _ = pp }) {
		return bad("%s: Eval with this environment does not return (still running after 10 s)", c.Name)
	}
	_ = eerr
	return ok(true, "fixed:"+c.Name)
}

var c15fixed = Register(&Prop[FixedHostCase]{ID: "C15", Name: "fixed-host-values", Check: checkFixedHost})

// ---- statically declared Go types (what reflect.StructOf cannot build: unexported fields,
// embedded structs, named element types): two values of ONE Go type in the stable class have the
// same yae type, and ValOf's type is TypeOf's type, whichever of the two paths (static type walk
// for empty / nil parts, value walk otherwise) produces it

type stUnexp struct {
	A int
	b string
}
type stInner struct {
	X float64
	y bool
}
type stOuter struct {
	stInner
	Rows []stUnexp
	M    map[string]stUnexp
	P    *stUnexp `yae:"p,maybe"`
}
type stNamedList []stUnexp

// two DIFFERENT Go struct types that print alike (reflect.Type.String() is "props.row" for both:
// the same local type name in two functions, as two packages of one name would give)
func sameNameA() (empty, filled interface{}) {
	type row struct {
		ID  float64 `yae:"id"`
		Qty float64 `yae:"qty"`
	}
	return []row{}, []row{{1, 2}}
}

func sameNameB() (empty, filled interface{}) {
	type row struct {
		ID   float64 `yae:"id"`
		Name string  `yae:"name"`
	}
	return []row{}, []row{{1, "n"}}
}

func sameNamePair(f func() (interface{}, interface{})) [2]interface{} {
	a, b := f()
	return [2]interface{}{a, b}
}

type StaticPairCase struct {
	Name string `json:"name"`
}

var staticPairs = map[string][2]interface{}{
	"slice-empty-vs-filled":     {[]stUnexp{}, []stUnexp{{1, "x"}, {2, "y"}}},
	"map-empty-vs-filled":       {map[string]stUnexp{}, map[string]stUnexp{"k": {1, "x"}}},
	"named-list":                {stNamedList{}, stNamedList{{3, "z"}}},
	"nested-empty-vs-filled":    {stOuter{Rows: []stUnexp{}, M: map[string]stUnexp{}}, stOuter{stInner{1.5, true}, []stUnexp{{1, "a"}}, map[string]stUnexp{"k": {2, "b"}}, &stUnexp{3, "c"}}},
	"pointer-field-nil-vs-set":  {stOuter{Rows: []stUnexp{{1, "a"}}, M: map[string]stUnexp{"k": {}}}, stOuter{Rows: []stUnexp{{1, "a"}}, M: map[string]stUnexp{"k": {}}, P: &stUnexp{}}},
	"array-of-structs":          {[2]stUnexp{}, [2]stUnexp{{1, "a"}, {2, "b"}}},
	"slice-of-embedded":         {[]stOuter{}, []stOuter{{Rows: []stUnexp{}, M: map[string]stUnexp{}}}},
	"map-of-slices":             {map[int][]stInner{}, map[int][]stInner{1: {{1, false}}}},
	"same-type-name-first":      sameNamePair(sameNameA),
	"same-type-name-second":     sameNamePair(sameNameB),
	"pointer-to-struct-of-list": {&stOuter{Rows: []stUnexp{}, M: map[string]stUnexp{}}, &stOuter{Rows: []stUnexp{{}}, M: map[string]stUnexp{"a": {}}}},
}

func checkStaticPair(c *StaticPairCase) *Outcome {
	pair, okk := staticPairs[c.Name]
	if !okk {
		return skip("unknown-static-pair")
	}
	var tys [2]*types.Type
	for i, goV := range pair {
		var v *val.Val
		var ty *types.Type
		var verr, terr error
		if p := run.Guard(func() { v, verr = conv.ValOf(goV); ty, terr = conv.TypeOf(goV) }); p != nil {
			return bad("%s: conversion of %#v panicked: %s", c.Name, goV, p.Text)
		}
		if verr != nil || terr != nil {
			return bad("%s: supported data %#v rejected: ValOf: %v, TypeOf: %v", c.Name, goV, verr, terr)
		}
		if !types.Equals(v.Type, ty) {
			return bad("%s: ValOf(%#v) has type %s, TypeOf reports %s", c.Name, goV, v.Type, ty)
		}
		if _, probs := run.FromYaeVal(v, nil); len(probs) > 0 {
			return bad("%s: converted value of %#v is not well-formed: %v", c.Name, goV, probs)
		}
		tys[i] = ty
	}
	if !types.Equals(tys[0], tys[1]) {
		return bad("%s: two values of one Go type get different types: %s for %#v, %s for %#v", c.Name, tys[0], pair[0], tys[1], pair[1])
	}
	// an expression compiled against one sample accepts the other value
	for i := range pair {
		env := map[string]interface{}{"v": pair[i]}
		other := map[string]interface{}{"v": pair[1-i]}
		cl, cerr := yae.NewExpr().Compile("string(v)", env)
		if cerr != nil {
			return bad("%s: string(v) does not compile against the sample: %v", c.Name, cerr)
		}
		if _, err := cl(other); err != nil {
			return bad("%s: compiled against %#v, the Callable refuses %#v of the same Go type: %v", c.Name, pair[i], pair[1-i], err)
		}
	}
	return ok(true, "static-go-type-pair")
}

var c15static = Register(&Prop[StaticPairCase]{ID: "C15", Name: "static-type-pairs", Check: checkStaticPair})

func TestC15(t *testing.T) {
	R.Rule = "Go values built by reflection to depth 4: all integer / float widths, bool, string (incl. invalid UTF-8), time.Time in several zones with nanoseconds, pointers, slices, arrays, maps with primitive / time keys, structs via reflect.StructOf with yae tags (name, name+maybe, maybe only, padded / upper-case, untagged), interface-typed parts, nil-able parts nil or non-nil, unsupported kinds (chan, func, complex, uintptr); pairs of values of one Go type; statically declared Go types with unexported fields, embedded structs and named element types, two different struct types of one printed name (empty / nil vs filled values of one type); plus fixed error classes (nil, typed nils, mixed interface slices, 101-deep nesting, recursive Go type, duplicate tag names, struct-keyed map); oracle: relations between ValOf, TypeOf, the environment conversions and the harness's reading of the Go value (contents, order, field names, optional-ness), type stability across values of one Go type for the stable class and acceptance of a sibling value by a compiled expression; non-trivial = value with >= 2 nesting levels and a pointer, map, tagged field, time or interface element"
	R.Assume = []string{"expect() in props/c15_test.go is the documented type mapping (README table + tag syntax)", "numeric map keys within ±2^53"}
	reportKnown(t, "C15")
	runRegress(t, "C15")
	c15fixed.Each(t, "fixed-error-classes", func(yield func(*FixedHostCase) bool) {
		names := make([]string, 0, len(fixedHost))
		for n := range fixedHost {
			names = append(names, n)
		}
		sortStringsInPlace(names)
		for _, n := range names {
			if !yield(&FixedHostCase{Name: n}) {
				return
			}
		}
	})
	c15static.Each(t, "static-go-types", func(yield func(*StaticPairCase) bool) {
		names := make([]string, 0, len(staticPairs))
		for n := range staticPairs {
			names = append(names, n)
		}
		sortStringsInPlace(names)
		for _, n := range names {
			if !yield(&StaticPairCase{Name: n}) {
				return
			}
		}
	})
	c15.Run(t, budget(8000, 480000))
}

// returnsWithin runs f in a goroutine and reports whether it returned in time
// (a call that never returns keeps its goroutine; the check stops at the first failure).
func returnsWithin(d time.Duration, f func()) bool {
	done := make(chan struct{})
	go func() {
		defer close(done)
		f()
	}()
	select {
	case <-done:
		return true
	case <-time.After(d):
		return false
	}
}
