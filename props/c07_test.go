package props

import (
	"fmt"
	"reflect"
	"sort"
	"testing"

	"github.com/goghcrow/yae"
	"pgregory.net/rapid"

	"verif/gen"
	m "verif/model"
	"verif/run"
)

// C07 — a compiled expression never runs on an environment of mismatching types.

type EnvCase struct {
	ProgCase                   // program over E0 = Env, conforming sample values = Vals
	Form0    string            `json:"form0"` // raw | struct | map : physical form of the compile-time environment
	Form1    string            `json:"form1"`
	Vals1    map[string]*m.Val `json:"vals1"` // run-time environment E1
	Muts     []string          `json:"muts,omitempty"`
	Warm     bool              `json:"warm,omitempty"` // an accepted invocation with the sample comes first
	// Mixed: the binding mm (map[str, list[num]], not used by the program) arrives at run time as
	// a Go map[string][]interface{} whose entries hold lists of different element types -
	// inconsistent host data, which must be refused like any other mismatch
	Mixed bool `json:"mixed,omitempty"`
}

const mixedName = "mm"

func conforms(e0 map[string]*m.Type, e1 map[string]*m.Val) bool {
	for n, t := range e0 {
		v, okk := e1[n]
		if !okk || !m.Equal(t, v.T) {
			return false
		}
	}
	return true
}

func genEnvCase(t *rapid.T) *EnvCase {
	o := gen.ProgOpt{Fuel: 3, Partial: false, Sugar: rapid.Bool().Draw(t, "sugar"), Maybe: true, Times: true, Harness: true, HostEnv: true}
	g := gen.NewG(t, o)
	want := g.AnyResultType()
	e := g.ExprTraced(want)
	c := &EnvCase{}
	if _, taken := g.Vals["rows"]; !taken && rapid.IntRange(0, 4).Draw(t, "rows") == 0 {
		// a list of object rows, and a program whose result holds fields of a later row
		rt := m.Obj(m.Field{Name: "id", T: m.Num}, m.Field{Name: "name", T: m.Str}, m.Field{Name: "ok", T: m.Bool})
		rows := &m.Val{T: m.List(rt)}
		for i, n := 0, rapid.IntRange(2, 3).Draw(t, "nrows"); i < n; i++ {
			rows.L = append(rows.L, gen.Value(t, rt, gen.ValOpt{MaxLen: 2}))
		}
		g.FreshVarNamed("rows", rows)
		last := m.Lit("num", fmt.Sprint(len(rows.L)-1))
		e = m.ObjE([]string{"r", "x", "y", "z"}, []*m.Expr{e,
			m.Member(m.Index(m.V("rows"), last), "id"), m.Member(m.Index(m.V("rows"), last.Clone()), "name"), m.Member(m.Index(m.V("rows"), m.Lit("num", "1")), "ok")})
	}
	c.E, c.Env, c.Vals, c.Extra, c.Stats = e, g.Env, g.Vals, run.StdHarness, g.Stats
	// the typing environment is the type of the sample values (host forms derive it from them)
	for n, v := range c.Vals {
		c.Env[n] = v.T
	}
	hostOK := run.HostableEnv(c.Env)
	for _, v := range c.Vals {
		if hasFunVal(v) {
			hostOK = false
		}
	}
	forms := []string{"raw", "raw", "rawshared", "rawshared", "rawlayered"}
	if hostOK {
		forms = []string{"raw", "rawshared", "rawlayered", "struct", "struct", "map", "dyn", "ptr"}
	}
	c.Form0 = forms[rapid.IntRange(0, len(forms)-1).Draw(t, "form0")]
	// ---- derive E1
	c.Vals1 = map[string]*m.Val{}
	names := make([]string, 0, len(c.Vals))
	for n := range c.Vals {
		names = append(names, n)
	}
	sort.Strings(names)
	for _, n := range names {
		// fresh values of the same type (an equally shaped other value), sometimes the sample itself
		if rapid.Bool().Draw(t, "fresh") && c.Vals[n].T.K != m.TFun {
			c.Vals1[n] = gen.Value(t, c.Vals[n].T, gen.ValOpt{MaxLen: 3})
		} else {
			c.Vals1[n] = c.Vals[n]
		}
	}
	nmut := rapid.IntRange(0, 3).Draw(t, "nmut")
	for i := 0; i < nmut && len(names) > 0; i++ {
		n := names[rapid.IntRange(0, len(names)-1).Draw(t, "mutname")]
		switch rapid.IntRange(0, 5).Draw(t, "mutkind") {
		case 0:
			delete(c.Vals1, n)
			c.Muts = append(c.Muts, "drop:"+n)
		case 1:
			if v, okk := c.Vals1[n]; okk && v.T.K != m.TFun {
				nt := gen.Mutate(t, v.T, gen.TypeOpt{Depth: 2, Maybe: true, MaybeInFields: true}).FixKeys()
				if nt.K == m.TMaybe && v.T.K != m.TMaybe {
					nt = nt.El()
				}
				c.Vals1[n] = gen.Value(t, nt, gen.ValOpt{MaxLen: 2})
				c.Muts = append(c.Muts, "retype:"+n)
			}
		case 2:
			extra := fmt.Sprintf("extra%d", i)
			c.Vals1[extra] = gen.Value(t, gen.Type(t, gen.TypeOpt{Depth: 2}), gen.ValOpt{MaxLen: 2})
			c.Muts = append(c.Muts, "extra")
		case 3:
			if v, okk := c.Vals1[n]; okk {
				c.Vals1[n] = gen.PermuteVal(t, v)
				c.Muts = append(c.Muts, "permute:"+n)
			}
		case 4:
			if v, okk := c.Vals1[n]; okk && v.T.K != m.TMaybe && v.T.K != m.TFun {
				// the binding becomes optional (what a nil / tagged pointer does to host data)
				if rapid.Bool().Draw(t, "present") {
					c.Vals1[n] = m.VJust(v.T, v)
				} else {
					c.Vals1[n] = m.VNothing(v.T)
				}
				c.Muts = append(c.Muts, "optional:"+n)
			}
		default:
			// no mutation: same types, other values
		}
	}
	host1 := true
	for _, v := range c.Vals1 {
		if !run.Hostable(v.T) && !(v.T.K == m.TMaybe && run.Hostable(v.T.El())) || hasFunVal(v) {
			host1 = false
		}
	}
	forms1 := []string{"raw"}
	if host1 {
		// half of the time the same physical form as at compile time: for the
		// struct forms that can mean the very same Go type with another yae type
		forms1 = []string{"raw", "struct", "struct", "map", "maprows", "maprows", "dyn", "ptr", c.Form0, c.Form0, c.Form0, c.Form0, c.Form0, c.Form0}
	}
	if _, taken := c.Vals["seg"]; !taken && c.Form0 == "rawshared" && rapid.IntRange(0, 1).Draw(t, "seg") == 0 {
		// one composite type (point) occurring several times inside one binding's type - as one
		// shared type object in the compile-time types.Env - and a run-time value that matches
		// at the first occurrence and differs at a later one
		point := m.Obj(m.Field{Name: "x", T: m.Num}, m.Field{Name: "y", T: m.Num})
		bad := m.Obj(m.Field{Name: "x", T: m.Num}, m.Field{Name: "y", T: m.Str})
		pt := func(t *m.Type) *m.Val {
			if t == point {
				return m.VObj(point, m.VNum(1), m.VNum(2))
			}
			return m.VObj(bad, m.VNum(1), m.VStr("2"))
		}
		mk := func(late *m.Type, where int) *m.Val {
			ts := []*m.Type{point, point, point}
			ts[where] = late
			st := m.Obj(m.Field{Name: "from", T: ts[0]}, m.Field{Name: "to", T: ts[1]}, m.Field{Name: "via", T: m.List(ts[2])})
			return m.VObj(st, pt(ts[0]), pt(ts[1]), m.VList(ts[2], pt(ts[2])))
		}
		good := mk(point, 1)
		c.Vals["seg"], c.Env["seg"] = good, good.T
		if rapid.IntRange(0, 2).Draw(t, "segbad") > 0 {
			c.Vals1["seg"] = mk(bad, rapid.IntRange(1, 2).Draw(t, "segwhere"))
			c.Muts = append(c.Muts, "retype-later-occurrence:seg")
		} else {
			c.Vals1["seg"] = good
		}
	}
	c.Form1 = forms1[rapid.IntRange(0, len(forms1)-1).Draw(t, "form1")]
	if c.Form1 == "rawshared" || c.Form1 == "rawlayered" {
		c.Form1 = "raw" // sharing and layering are matters of the compile-time types.Env only
	}
	c.Warm = rapid.Bool().Draw(t, "warm")
	if _, taken := c.Vals[mixedName]; !taken && hostOK && host1 && rapid.IntRange(0, 7).Draw(t, "mixed") == 0 {
		if _, mapOK := run.EnvMap(c.Vals1); mapOK {
			c.Mixed, c.Form1 = true, "map"
			mv := m.VMap(m.Str, m.List(m.Num), m.Entry{K: m.VStr("a"), V: m.VList(m.Num, m.VNum(1))})
			c.Vals[mixedName], c.Env[mixedName], c.Vals1[mixedName] = mv, mv.T, mv
			for n, v := range c.Vals1 {
				c.Vals1[n] = v.Conform(nil)
			}
		}
	}
	if c.Form1 != "raw" {
		for n, v := range c.Vals1 {
			c.Vals1[n] = v.Conform(nil) // host data has one field order per position
		}
	}
	return c
}

// conformForm: the values as host data can express them (one field order per position).
func conformForm(vals map[string]*m.Val, form string) map[string]*m.Val {
	if form == "raw" {
		return vals
	}
	return conformAll(vals)
}

func hasFunVal(v *m.Val) bool {
	if v == nil {
		return false
	}
	if v.T.HasKind(m.TFun) {
		return true
	}
	return false
}

// envObject: the environment in a physical form (nil, false when the form cannot express it).
func envObject(en *run.Engine, form string, vals map[string]*m.Val, types bool) (interface{}, bool) {
	switch form {
	case "struct":
		return run.EnvStruct(vals), true
	case "map":
		mp, okk := run.EnvMap(vals)
		if !okk {
			return nil, false
		}
		return mp, true
	case "maprows":
		mp, _, okk := run.EnvMapMixedRows(vals)
		if !okk {
			return nil, false
		}
		return mp, true
	case "dyn":
		return run.EnvStructDyn(vals)
	case "ptr":
		return run.EnvStructPtr(vals)
	}
	if types {
		env := map[string]*m.Type{}
		for n, v := range vals {
			env[n] = v.T
		}
		if form == "rawshared" {
			return run.TypeEnvShared(env), true
		}
		if form == "rawlayered" {
			return run.TypeEnvLayered(env), true
		}
		return run.TypeEnv(env), true
	}
	return en.ValEnv(vals), true
}

func checkC07(c *EnvCase) *Outcome {
	pc := &c.ProgCase
	r := refRun(pc)
	if r.RefErr != nil {
		return skip("harness:reference-rejects-generated-program")
	}
	conf := conforms(c.Env, c.Vals1) && !c.Mixed
	sameGo := false
	// expected result on E1
	var r1 *CaseRun
	if conf {
		pc1 := &ProgCase{E: pc.E, Env: map[string]*m.Type{}, Vals: c.Vals1, Extra: pc.Extra, Print: pc.Print}
		for n, v := range c.Vals1 {
			pc1.Env[n] = v.T
		}
		r1 = refRun(pc1)
		if r1.RefErr != nil {
			return bad("harness: program not well-typed over the conforming run-time environment: %v", r1.RefErr)
		}
		if s := domainSkip(r1); s != "" {
			return skip(s)
		}
	}
	for _, be := range []run.Backend{run.VMSwitch, run.Closure} {
		en := run.NewEngine(be, pc.Extra)
		e0, ok0 := envObject(en, c.Form0, c.Vals, true)
		if !ok0 {
			return skip("form-unavailable")
		}
		var callable yae.Callable
		var cerr error
		if p := run.Guard(func() { callable, cerr = en.E.Compile(r.Src, e0) }); p != nil {
			return bad("%s: Compile panicked: %s\n src: %s", be, p.Text, r.Src)
		}
		if cerr != nil && c.Form0 == "rawlayered" {
			// a chain of environments is not something Compile takes at the pinned commit: nothing
			// was compiled, so nothing can run on a mismatching environment
			return ok(false, "form0:rawlayered", "layered-compile-environment-refused-by-compile")
		}
		if cerr != nil {
			return bad("%s: program over E0 does not compile against E0 in form %s: %v\n src: %s\n env: %s", be, c.Form0, cerr, r.Src, envSummary(pc))
		}
		// the same engine then compiles the same source against sibling environments (other types
		// under the same names; verdict ignored): a Callable keeps the environment it was compiled for
		_ = run.Guard(func() { _, _ = en.E.Compile(r.Src, run.TypeEnv(siblingTypes(c.Env))) })
		_ = run.Guard(func() { _, _ = en.E.Compile(r.Src, run.TypeEnv(siblingKinds(c.Env))) })
		e1, ok1 := envObject(en, c.Form1, c.Vals1, false)
		if !ok1 {
			return skip("form-unavailable")
		}
		if c.Mixed {
			mp, isMap := e1.(map[string]interface{})
			if !isMap {
				return skip("form-unavailable")
			}
			mp[mixedName] = map[string][]interface{}{"a": {1.0}, "b": {"x"}, "c": {2.0, 3.0}}
		}
		if c.Form0 != "raw" && c.Form1 != "raw" && reflect.TypeOf(e0) == reflect.TypeOf(e1) {
			sameGo = true
		}
		desc := fmt.Sprintf("E0(%s)=%s | E1(%s)=%s | muts=%v", c.Form0, envSummary(pc), c.Form1, valsSummary(c.Vals1), c.Muts)
		// the Callable is invoked several times: optionally first with the compile-time sample
		// in the run-time physical form (a call that must pass the check), then with E1, with the
		// very same E1 object again, and with a fresh object of the same contents; every
		// invocation with E1 is judged alike
		type step struct {
			what string
			env  interface{}
		}
		var steps []step
		if c.Warm {
			form := c.Form1
			if form != "raw" {
				hostable := run.HostableEnv(c.Env)
				for _, v := range c.Vals {
					if hasFunVal(v) {
						hostable = false
					}
				}
				if !hostable {
					form = "raw"
				}
			}
			if w, okw := envObject(en, form, conformForm(c.Vals, form), false); okw {
				steps = append(steps, step{"warm-up with the sample", w})
			}
		}
		steps = append(steps, step{"first", e1}, step{"same object again", e1})
		if e1b, okb := envObject(en, c.Form1, c.Vals1, false); okb && !c.Mixed {
			steps = append(steps, step{"fresh object, same contents", e1b})
		}
		if c.Mixed {
			// Go's map iteration decides which entry conversion meets first: a few more tries
			steps = append(steps, step{"same object, third time", e1}, step{"same object, fourth time", e1})
		}
		for _, st := range steps {
			o := &run.Outcome{Be: be}
			en.Tr.Reset()
			o.RunPan = run.Guard(func() { o.Val, o.RunErr = callable(st.env) })
			o.Trace = en.Tr.Snapshot()
			if st.what == "warm-up with the sample" {
				if o.RunPan != nil {
					return bad("%s: invocation with the compile-time sample panicked: %s\n src: %s\n %s", be, o.RunPan.Text, r.Src, desc)
				}
				continue
			}
			if !conf {
				if o.RunPan != nil {
					return bad("%s: mismatching environment (%s) made the Callable panic instead of returning an error: %s\n src: %s\n %s", be, st.what, o.RunPan.Text, r.Src, desc)
				}
				if o.RunErr == nil {
					return bad("%s: mismatching environment accepted (%s; result %s)\n src: %s\n %s", be, st.what, renderVal(o.Val), r.Src, desc)
				}
				if len(o.Trace) > 0 {
					return bad("%s: something was evaluated before the environment was refused (%s): %s\n src: %s\n %s", be, st.what, traceStr(o.Trace), r.Src, desc)
				}
				continue
			}
			// conforming: accepted and evaluates normally
			b := &BackendRun{O: o}
			if !o.Failed() {
				b.Val, b.Probs = run.FromYaeVal(o.Val, r1.RefType)
			}
			r1.Runs = []*BackendRun{b}
			pc1 := &ProgCase{E: pc.E, Vals: c.Vals1, Env: map[string]*m.Type{}}
			if err := compareWithRef(pc1, r1); err != nil {
				return &Outcome{Err: fmt.Errorf("conforming environment (%s; %s): %v", st.what, desc, err)}
			}
		}
	}
	classes := []string{"form0:" + c.Form0, "form1:" + c.Form1, fmt.Sprintf("conforms:%v", conf)}
	if c.Warm {
		classes = append(classes, fmt.Sprintf("accepted-call-first:conforms=%v", conf))
	}
	if c.Mixed {
		classes = append(classes, "inconsistent-host-map-as-binding")
	}
	if sameGo {
		classes = append(classes, fmt.Sprintf("same-go-type:conforms=%v", conf))
	}
	for _, mu := range c.Muts {
		for i, ch := range mu {
			if ch == ':' {
				mu = mu[:i]
				break
			}
		}
		classes = append(classes, "mut:"+mu)
	}
	return ok(len(c.Muts) > 0 || c.Form0 != c.Form1, classes...)
}

func valsSummary(vals map[string]*m.Val) string {
	ks := make([]string, 0, len(vals))
	for k := range vals {
		ks = append(ks, k)
	}
	sort.Strings(ks)
	s := ""
	for _, k := range ks {
		s += fmt.Sprintf("%s:%s=%s ", k, vals[k].T.OrderString(), vals[k].Render())
	}
	return s
}

// ---- two different Go struct types that print alike (the same local type name declared in two
// functions): empty slices take conv's static type walk, filled ones the value walk; a Callable
// compiled against one of the four values accepts exactly the values of the same Go type

type SameNameCase struct {
	X int `json:"x"` // compile-time sample: 0 empty A, 1 filled A, 2 empty B, 3 filled B
	Y int `json:"y"` // run-time value
}

func checkSameName(c *SameNameCase) *Outcome {
	ea, fa := sameNameA()
	eb, fb := sameNameB()
	vals := []interface{}{ea, fa, eb, fb}
	names := []string{"an empty slice of the first row type", "a filled slice of the first row type", "an empty slice of the second row type", "a filled slice of the second row type"}
	if c.X < 0 || c.X > 3 || c.Y < 0 || c.Y > 3 {
		return skip("bad-index")
	}
	for _, closureBE := range []bool{false, true} {
		e := yae.NewExpr()
		if closureBE {
			e.UseClosureCompiler()
		}
		cl, cerr := e.Compile("string(v)", map[string]interface{}{"v": vals[c.X]})
		if cerr != nil {
			return bad("string(v) does not compile against %s: %v", names[c.X], cerr)
		}
		var err error
		if p := run.Guard(func() { _, err = cl(map[string]interface{}{"v": vals[c.Y]}) }); p != nil {
			return bad("compiled against %s, invoked with %s: the Callable panicked: %s", names[c.X], names[c.Y], p.Text)
		}
		same := c.X/2 == c.Y/2
		if same && err != nil {
			return bad("compiled against %s, the Callable refuses %s (a value of the same Go type, hence of an equal type): %v", names[c.X], names[c.Y], err)
		}
		if !same && err == nil {
			return bad("compiled against %s, the Callable accepts %s (a list of objects with other fields)", names[c.X], names[c.Y])
		}
	}
	return ok(c.X != c.Y, "go-struct-types-of-one-printed-name")
}

var c07samename = Register(&Prop[SameNameCase]{ID: "C07", Name: "same-named-go-types", Check: checkSameName})

var c07 = Register(&Prop[EnvCase]{ID: "C07", Name: "env-check", Gen: genEnvCase, Check: checkC07})

func TestC07(t *testing.T) {
	R.Rule = "pairs (compile-time environment E0, run-time environment E1): E0 in one of six physical forms (raw types.Env also with identical composite sub-terms shared as one type object) (the run-time environment also as a map whose lists of objects are []interface{} rows of Go struct types declaring the fields in different orders) (raw types.Env, Go struct built by reflection with yae tags, map[string]interface{}, Go struct of interface{} fields, Go struct of untagged pointer fields — the last two give one Go type to environments of different yae types), E1 derived from a conforming environment by 0-3 mutations (drop a name, retype a binding at a drawn depth, add extra names, permute object field order at every depth, make a binding optional, other values of the same types, or an unused binding arriving as a Go map whose entries hold lists of different element types) and given in a drawn physical form; the Callable is invoked with E1 three times (first, the same object again, a fresh object of the same contents), half of the time after an accepted call with the compile-time sample, and every invocation is judged alike; programs over E0's names with effect-recording wrappers; after the compilation the same engine compiles the source against sibling environments (other types under the same names); plus the sixteen (compile-time sample, run-time value) pairs over empty / filled slices of two different Go struct types that print alike; oracle: model predicate conforms(E0,E1); conforming => accepted and result = reference evaluator on E1; non-conforming => error returned, no panic, empty effect log; non-trivial = at least one mutation or a change of physical form"
	R.Assume = []string{"model.Equal is structural type equality (fields by name)", "host forms built by run/host.go denote the model values (this is C15's subject)"}
	reportKnown(t, "C07")
	runRegress(t, "C07")
	c07samename.Each(t, "same-named-go-types", func(yield func(*SameNameCase) bool) {
		// empty values first: the static walk of either type happens before any value walk
		for _, x := range []int{2, 0, 1, 3} {
			for _, y := range []int{0, 2, 3, 1} {
				if !yield(&SameNameCase{X: x, Y: y}) {
					return
				}
			}
		}
	})
	c07.Run(t, budget(6000, 320000))
}
