package props

import (
	"fmt"
	"strings"
	"testing"

	"github.com/goghcrow/yae"
	"github.com/goghcrow/yae/conv"
	"github.com/goghcrow/yae/val"
	"pgregory.net/rapid"

	"verif/gen"
	m "verif/model"
	"verif/run"
)

// C01 — preservation: run-time values have the statically inferred type.

// orderStats: does the case contain one object type written in two field
// orders (literal vs literal, literal vs environment, type vs value)?
func orderStats(c *ProgCase, r *CaseRun) (twoOrders bool, composite bool) {
	orders := map[string]map[string]bool{}
	note := func(t *m.Type) {
		var w func(x *m.Type)
		w = func(x *m.Type) {
			if x.K == m.TObj && len(x.F) > 1 {
				k := x.String()
				if orders[k] == nil {
					orders[k] = map[string]bool{}
				}
				orders[k][x.OrderString()] = true
			}
			for _, a := range x.A {
				w(a)
			}
			for _, f := range x.F {
				w(f.T)
			}
		}
		w(t)
	}
	var noteVal func(v *m.Val)
	noteVal = func(v *m.Val) {
		if v == nil {
			return
		}
		note(v.T)
		for _, x := range v.L {
			noteVal(x)
		}
		for _, e := range v.M {
			noteVal(e.V)
		}
		noteVal(v.P)
	}
	for _, t := range c.Env {
		note(t)
	}
	for _, v := range c.Vals {
		noteVal(v)
	}
	for _, t := range r.Checker.Types {
		note(t)
	}
	for _, o := range orders {
		if len(o) > 1 {
			twoOrders = true
		}
	}
	if r.RefType != nil {
		switch r.RefType.K {
		case m.TList, m.TMap, m.TObj, m.TMaybe:
			composite = true
		}
	}
	return
}

func checkC01(c *ProgCase) *Outcome {
	r := refRun(c)
	if r.RefErr != nil {
		return skip("harness:reference-rejects-generated-program")
	}
	// (i) the inferred type is the one the rules assign
	ty, _, err, p := run.InferType(r.Src, c.Env, c.Extra)
	if p != nil || err != nil {
		return bad("well-typed program rejected by the checker: err=%v panic=%v\n src: %s\n env: %s", err, p, r.Src, envSummary(c))
	}
	if !m.Equal(ty, r.RefType) {
		return bad("inferred type %s, the typing rules give %s\n src: %s\n env: %s", ty, r.RefType, r.Src, envSummary(c))
	}
	// (ii) every value a back end produces is a well-formed value of that type
	runBackends(c, r, run.AllBackends)
	produced := false
	for _, b := range r.Runs {
		o := b.O
		if !o.Compiled() {
			return bad("%s does not compile an accepted program: %s\n src: %s", o.Be, describeOutcome(b), r.Src)
		}
		if o.Failed() {
			continue // failing is C02's subject
		}
		produced = true
		if len(b.Probs) > 0 || b.Val == nil {
			return bad("%s: value is not a well-formed %s: %v\n src: %s\n env: %s", o.Be, r.RefType, b.Probs, r.Src, envSummary(c))
		}
		if werr := b.Val.WellTyped(); werr != nil {
			return bad("%s: %v\n src: %s", o.Be, werr, r.Src)
		}
	}
	// and through Expr.Parse + Expr.CompileExpr on one tree that is also compiled against sibling
	// types before and afterwards: a well-formed value of the type inferred for THIS compilation
	if len(r.Runs) > 0 && !r.Runs[0].O.Failed() {
		if o := twoStepRoute(c, r); o != nil {
			return o
		}
	}
	two, composite := orderStats(c, r)
	accessOrComposite := composite || c.Stats["member"] > 0 || c.Stats["index-list"] > 0 || c.Stats["index-map"] > 0
	classes := []string{fmt.Sprintf("produced-value:%v", produced)}
	if two {
		classes = append(classes, "two-orders-of-one-object-type")
	}
	if r.Checker.PolyComposite > 0 {
		classes = append(classes, "poly-instantiated-with-composite")
	}
	if r.Checker.PolyInst > 0 {
		classes = append(classes, "poly-call")
	}
	if r.Checker.Candidates > 1 {
		classes = append(classes, "overloaded-call")
	}
	if c.Stats["empty-list-literal"]+c.Stats["empty-map-literal"] > 0 {
		classes = append(classes, "empty-container")
	}
	if c.Stats["object-literal"] > 0 {
		classes = append(classes, "object-literal")
	}
	nontrivial := produced && accessOrComposite && (two || r.Checker.PolyInst > 0 || r.Checker.Candidates > 1)
	return ok(nontrivial, classes...)
}

// ---- preservation for whatever the checker accepts: programs mutated towards ill-typedness
// (C05's catalogue). The reference checker is not consulted: if yae accepts the program with
// type T, every value it produces must be a well-formed value of T.

func checkC01Accepted(c *TypingCase) *Outcome {
	pc := &c.ProgCase
	src := m.Print(pc.E, pc.Print)
	ty, _, err, p := run.InferType(src, pc.Env, pc.Extra)
	if p != nil {
		return skip("checker-panics(C05/C12)")
	}
	if err != nil || ty == nil {
		return ok(false, "accepted-preservation:rejected")
	}
	produced := false
	for _, be := range run.AllBackends {
		en := run.NewEngine(be, pc.Extra)
		o := en.RunSrc(src, pc.Env, pc.Vals)
		if !o.Compiled() || o.Failed() {
			continue
		}
		produced = true
		v, probs := run.FromYaeVal(o.Val, ty)
		if len(probs) > 0 || v == nil {
			return bad("%s: the checker accepts the program with type %s, but the value it produces is not a well-formed value of that type: %v\n src: %s\n env: %s\n mutation: %s", be, ty, probs, src, envSummary(pc), c.Mutation)
		}
		if werr := v.WellTyped(); werr != nil {
			return bad("%s: %v (inferred type %s)\n src: %s\n mutation: %s", be, werr, ty, src, c.Mutation)
		}
	}
	cls := "accepted-preservation:accepted"
	if c.Mutation != "" {
		cls = "accepted-preservation:accepted-after-mutation"
	}
	return ok(produced && c.Mutation != "", cls, fmt.Sprintf("accepted-produced-value:%v", produced))
}

var c01acc = Register(&Prop[TypingCase]{ID: "C01", Name: "accepted-preservation", Gen: genTypingCase, Check: checkC01Accepted})

// ---- preservation for whatever environment the Callable lets through: C07's pairs (compile-time
// environment, run-time environment derived by mutations). Whether the run-time environment
// should have been refused is C07's subject; here: IF the Callable evaluates over it and yields a
// value, that value is a well-formed value of the type inferred at compile time.

func checkC01Env(c *EnvCase) *Outcome {
	pc := &c.ProgCase
	r := refRun(pc)
	if r.RefErr != nil {
		return skip("harness:reference-rejects-generated-program")
	}
	produced, nonconf := false, !conforms(c.Env, c.Vals1) || c.Mixed
	for _, be := range []run.Backend{run.VMSwitch, run.Closure, run.Interp} {
		en := run.NewEngine(be, pc.Extra)
		e0, ok0 := envObject(en, c.Form0, c.Vals, true)
		e1, ok1 := envObject(en, c.Form1, c.Vals1, false)
		if !ok0 || !ok1 || c.Mixed {
			return skip("form-unavailable")
		}
		var callable yae.Callable
		var cerr error
		if p := run.Guard(func() { callable, cerr = en.E.Compile(r.Src, e0) }); p != nil || cerr != nil {
			return skip("does-not-compile(C07)")
		}
		var v *val.Val
		var err error
		if p := run.Guard(func() { v, err = callable(e1) }); p != nil || err != nil || v == nil {
			continue
		}
		produced = true
		mv, probs := run.FromYaeVal(v, r.RefType)
		if len(probs) > 0 || mv == nil {
			return bad("%s: the Callable evaluated over the run-time environment and produced a value that is not a well-formed %s: %v\n src: %s\n E0(%s)=%s | E1(%s)=%s | muts=%v", be, r.RefType, probs, r.Src, c.Form0, envSummary(pc), c.Form1, valsSummary(c.Vals1), c.Muts)
		}
	}
	return ok(produced && len(c.Muts) > 0, fmt.Sprintf("env-preservation:produced=%v", produced), fmt.Sprintf("env-preservation:run-time-env-differs=%v", nonconf))
}

var c01env = Register(&Prop[EnvCase]{ID: "C01", Name: "environment-preservation", Gen: genEnvCase, Check: checkC01Env})

var c01opt = gen.ProgOpt{Fuel: 4, Partial: false, Sugar: true, NonFinite: true, Maybe: true, Times: true, Harness: true}

var c01 = Register(&Prop[ProgCase]{ID: "C01", Name: "preservation", Gen: genProgCase(c01opt, run.StdHarness), Check: checkC01})

// programs with partial operations: a failure that a lazy host function recovers from (lz_try)
// leaves a produced value, which must be as well-formed as any other
var c01partialOpt = gen.ProgOpt{Fuel: 4, Partial: true, Sugar: true, NonFinite: true, Maybe: true, Times: true, Harness: true, Poison: true}

func checkC01Partial(c *ProgCase) *Outcome {
	o := checkC01(c)
	if o.Err == nil && o.Skip == "" && c.Stats["lz_try"] > 0 {
		o.Classes = append(o.Classes, "with-recovering-lazy-function")
		if c.Stats["lz_try-failing-operand"] > 0 {
			o.Classes = append(o.Classes, "recovered-failure-with-pending-operand")
		}
	}
	return o
}

var c01partial = Register(&Prop[ProgCase]{ID: "C01", Name: "preservation-with-partial-operations", Gen: genProgCase(c01partialOpt, run.StdHarness), Check: checkC01Partial})

func TestC01(t *testing.T) {
	R.Rule = "well-typed programs over literals, variables, lists, maps, objects, member / subscript access, overloaded and polymorphic calls; every object occurrence (literal elements, conditional arms, typing environment, run-time values) written in an independently drawn field order; four back ends, and through Expr.Parse + Expr.CompileExpr on one parsed tree that is compiled against sibling types before and afterwards (VM, closure, interpreter); plus member / subscript paths into reflect-built Go host values (two values of one Go type in a row), whose results must be well-formed values of the type inferred against that host data; plus programs with partial operations (failures inside the deferred operand of a recovering lazy host function leave a produced value); plus programs mutated towards ill-typedness (C05's catalogue, user overloads): whenever yae's own checker accepts one with type T (the reference is not consulted), every value produced must be a well-formed value of T; plus C07's pairs of compile-time and mutated run-time environments: whenever the Callable evaluates over the run-time environment and yields a value, it is a well-formed value of the type inferred at compile time; oracle: inferred type = reference type and checked walk of every produced value (tag of every component equals the declared component type, no nil component, map entries under the key their text denotes); non-trivial = a value was produced, the program has a composite result or a member/subscript access, and one object type occurs in two field orders or a polymorphic / overloaded call is present"
	R.Assume = []string{"ref.Check encodes the typing rules of C05's statement"}
	reportKnown(t, "C01")
	runRegress(t, "C01")
	c01.Run(t, budget(6000, 320000))
	c01host.Run(t, budget(2500, 160000))
	c01acc.Run(t, budget(3000, 160000))
	c01partial.Run(t, budget(4000, 200000))
	c01env.Run(t, budget(2500, 120000))
}

// ---- preservation over host data: values supplied by Go structs / slices / maps

// hostPaths lists access expressions into a host value (member, subscript),
// rooted at the fields of the top-level struct.
func hostPaths(h *H) []string {
	var out []string
	var walk func(x *H, expr string, depth int)
	walk = func(x *H, expr string, depth int) {
		for x != nil && (x.K == "ptr" || x.K == "iface") {
			if x.Nil {
				if expr != "" {
					out = append(out, expr)
				}
				return
			}
			x = x.Elem
		}
		if x == nil || depth > 4 {
			return
		}
		if expr != "" {
			out = append(out, expr)
		}
		switch x.K {
		case "struct":
			for i, f := range x.Fields {
				name, _ := parseTag(f)
				if !okIdent(name) {
					continue
				}
				e := name
				if expr != "" {
					e = expr + "." + name
				}
				it := x.Items[i]
				if _, maybe := parseTag(f); maybe || (nilable(it) && it.Nil) {
					// optional: only get(…, default) may consume it; the path ends here
					out = append(out, e)
					continue
				}
				walk(it, e, depth+1)
			}
		case "slice", "array":
			if x.K == "slice" && x.Nil {
				return
			}
			for i := range x.Items {
				if i > 2 || expr == "" {
					break
				}
				walk(x.Items[i], fmt.Sprintf("%s[%d]", expr, i), depth+1)
			}
		case "map":
			if x.Nil || expr == "" {
				return
			}
			for i, k := range x.Keys {
				if i > 1 || k.K != "string" || !validLitString(k.S) {
					break
				}
				walk(x.Items[i], expr+"["+gen.StrLitText(k.S, false, false)+"]", depth+1)
			}
		}
	}
	walk(h, "", 0)
	return out
}

func validLitString(s string) bool {
	for _, r := range s {
		if r == 0xFFFD {
			return false
		}
	}
	return true
}

func genHostEnvCase(t *rapid.T) *HostCase {
	g := &hostGen{t: t}
	top := &H{K: "struct"}
	n := rapid.IntRange(1, 3).Draw(t, "nfields")
	names := []string{"u", "items", "cfg"}
	for i := 0; i < n; i++ {
		top.Fields = append(top.Fields, HF{Go: goFieldNames[i], Tag: fmt.Sprintf(`yae:"%s"`, names[i])})
		top.Items = append(top.Items, g.typ(rapid.IntRange(1, 3).Draw(t, "fdepth")))
	}
	c := &HostCase{V1: g.fill(top, true)}
	c.V2 = g.fill(typeWitness(c.V1), true)
	return c
}

func checkHostPreservation(c *HostCase) *Outcome {
	checked, produced := 0, 0
	for _, hv := range []*H{c.V1, c.V2} {
		if hv == nil {
			continue
		}
		var goV interface{}
		if p := run.Guard(func() { goV = hv.goValue().Interface() }); p != nil {
			return skip("harness:host-value-not-constructible")
		}
		tenv, terr := conv.TypeEnvOf(goV)
		if terr != nil {
			continue // unsupported / inconsistent data: C15's subject
		}
		for _, path := range hostPaths(hv) {
			ty, ierr, ip := run.InferTypeEnv(path, tenv)
			if ip != nil {
				return bad("type checking %q over host data panicked: %s", path, ip.Text)
			}
			if ierr != nil {
				continue // e.g. a path through data the checker types differently; nothing is produced
			}
			checked++
			for _, closureBE := range []bool{false, true} {
				e := yae.NewExpr()
				if closureBE {
					e.UseClosureCompiler()
				}
				var v *val.Val
				var err error
				p := run.Guard(func() {
					var cl yae.Callable
					cl, err = e.Compile(path, goV)
					if err == nil {
						v, err = cl(goV)
					}
				})
				if p != nil {
					return bad("evaluating %q over host data panicked: %s (%#v)", path, p.Text, goV)
				}
				if err != nil {
					continue
				}
				produced++
				if _, probs := run.FromYaeVal(v, ty); len(probs) > 0 {
					if strings.Contains(strings.Join(probs, " "), "two entries denote the same key @") && excludedFamily("equal-instants-different-zones") {
						// F12 (open): a Go map keyed by one instant in two zones becomes two entries
						return skip("known:equal-instants-different-zones")
					}
					d := fmt.Sprintf("%#v", goV)
					if len(d) > 600 {
						d = d[:600] + "..."
					}
					return bad("%q is accepted with inferred type %s over host data, but the value it produces is not a well-formed value of that type: %v\n host data: %s", path, ty, probs, d)
				}
			}
		}
	}
	return ok(produced > 0 && checked >= 2, "host-data-paths")
}

var c01host = Register(&Prop[HostCase]{ID: "C01", Name: "host-data-preservation", Gen: genHostEnvCase, Check: checkHostPreservation})
