package props

import (
	"fmt"
	"testing"

	"pgregory.net/rapid"

	"verif/gen"
	m "verif/model"
	"verif/ref"
	"verif/run"
)

// C05 — the checker accepts exactly the well-typed programs and infers their type.

type TypingCase struct {
	ProgCase
	Mutation string `json:"mutation,omitempty"`
}

func genTypingCase(t *rapid.T) *TypingCase { return genTypingCaseWith(t, nil) }

// genBottomTypingCase: always mutated, and only by the mutations that put the element type of
// an empty literal where another type is required (or allowed)
func genBottomTypingCase(t *rapid.T) *TypingCase {
	return genTypingCaseWith(t, []string{"bottom-typed-subexpr", "bottom-typed-key", "bottom-typed-dynamic-argument", "empty-literal-mix"})
}

func genTypingCaseWith(t *rapid.T, only []string) *TypingCase {
	o := gen.ProgOpt{Fuel: 3, Partial: true, Sugar: true, Maybe: true, Times: true, Harness: true, NonFinite: false}
	g := gen.NewG(t, o)
	g.OnlyMutations = only
	ovs := gen.DrawOvs(t)
	g.Ovs = ovs
	if ovs == nil {
		g.Ovs = []ref.FunSig{}
	}
	want := g.AnyResultType()
	if rapid.IntRange(0, 2).Draw(t, "wantstr") == 0 {
		want = m.Str // calls of the overloaded family return str
	}
	var e *m.Expr
	if len(ovs) > 0 && rapid.IntRange(0, 2).Draw(t, "ovtop") == 0 {
		e = gen.Parenthesize(g.OvCall(3))
	} else {
		e = g.Expr(want)
	}
	c := &TypingCase{}
	if rapid.IntRange(0, 9).Draw(t, "mutate") < 6 || len(only) > 0 {
		e2, kind := g.Mutate(e)
		if kind != "" {
			e, c.Mutation = e2, kind
		}
	}
	c.E, c.Env, c.Vals, c.Stats = e, g.Env, g.Vals, g.Stats
	c.Extra = append(append([]ref.FunSig(nil), run.StdHarness...), ovs...)
	return c
}

// botSkipFamily: calls where a polymorphic overload with a concrete container
// parameter meets an empty-literal argument (F23) — only while that finding is open.
// siblingTypes: every composite type keeps its constructor but gets other primitives inside
// (num -> str -> bool -> num, time -> num); primitive bindings stay as they are.
func siblingTypes(env map[string]*m.Type) map[string]*m.Type {
	var swap func(t *m.Type, top bool) *m.Type
	swap = func(t *m.Type, top bool) *m.Type {
		switch t.K {
		case m.TNum:
			if top {
				return t
			}
			return m.Str
		case m.TStr:
			if top {
				return t
			}
			return m.Bool
		case m.TBool, m.TTime:
			if top {
				return t
			}
			return m.Num
		case m.TFun, m.TVar, m.TBot:
			return t
		}
		n := &m.Type{K: t.K, N: t.N}
		for _, a := range t.A {
			n.A = append(n.A, swap(a, false))
		}
		for _, f := range t.F {
			n.F = append(n.F, m.Field{Name: f.Name, T: swap(f.T, false)})
		}
		return n.FixKeys()
	}
	out := map[string]*m.Type{}
	for k, t := range env {
		out[k] = swap(t, true)
	}
	return out
}

// siblingKinds: bindings change their top-level constructor (str <-> list[num], list / map ->
// str): calls that resolved to a monomorphic overload resolve to a polymorphic one and back.
func siblingKinds(env map[string]*m.Type) map[string]*m.Type {
	out := map[string]*m.Type{}
	for k, t := range env {
		switch t.K {
		case m.TStr:
			out[k] = m.List(m.Num)
		case m.TList, m.TMap:
			out[k] = m.Str
		case m.TNum:
			out[k] = m.List(m.Num)
		default:
			out[k] = t
		}
	}
	return out
}

func checkC05(c *TypingCase) *Outcome {
	if err := checkBuiltInTable(); err != nil {
		return &Outcome{Err: err}
	}
	pc := &c.ProgCase
	r := refRun(pc)
	if r.Checker.BotSkips > 0 && excludedFamily("poly-overload-absorbs-empty-literal") {
		return skip("known:poly-overload-absorbs-empty-literal")
	}
	refAccepts := r.RefErr == nil
	ty, _, err, p := run.InferType(r.Src, pc.Env, pc.Extra)
	if p != nil {
		return bad("type checking panicked past Infer: %v\n src: %s", p.Text, r.Src)
	}
	yaeAccepts := err == nil
	if refAccepts != yaeAccepts {
		if refAccepts {
			return bad("well-typed program (type %s) rejected: %v\n src: %s\n env: %s\n mutation: %s", r.RefType, err, r.Src, envSummary(pc), c.Mutation)
		}
		return bad("ill-typed program accepted with type %s; the typing rules reject it: %v\n src: %s\n env: %s\n mutation: %s", ty, r.RefErr, r.Src, envSummary(pc), c.Mutation)
	}
	// Compile (the public entry point) must give the same verdict, as an error value
	for _, be := range []run.Backend{run.VMSwitch, run.Closure} {
		en := run.NewEngine(be, pc.Extra)
		// first the same text against a sibling environment on the same engine (same names, same
		// top-level constructors, other types inside): its verdict is not looked at
		_, _, _ = en.CompileSrc(r.Src, siblingTypes(pc.Env))
		_, _, _ = en.CompileSrc(r.Src, siblingKinds(pc.Env))
		_, cerr, cp := en.CompileSrc(r.Src, pc.Env)
		if cp != nil {
			return bad("%s: Compile panicked: %s\n src: %s", be, cp.Text, r.Src)
		}
		if (cerr == nil) != refAccepts {
			return bad("%s: Compile verdict (err=%v) differs from the typing rules (accept=%v)\n src: %s\n env: %s", be, cerr, refAccepts, r.Src, envSummary(pc))
		}
	}
	classes := []string{}
	if c.Mutation != "" {
		classes = append(classes, "mutation:"+c.Mutation)
	}
	if !refAccepts {
		classes = append(classes, "rejected")
		return ok(c.Mutation != "", classes...)
	}
	classes = append(classes, "accepted")
	if !m.Equal(ty, r.RefType) {
		return bad("inferred type %s, the typing rules give %s\n src: %s\n env: %s", ty, r.RefType, r.Src, envSummary(pc))
	}
	// lock-step of the type and value tables: the overload that runs is the one resolved
	if r.RefFail == nil || r.RefFail.Kind != "domain" {
		if domainSkip(r) == "" {
			runBackends(pc, r, []run.Backend{run.VMSwitch, run.Closure})
			if err := compareWithRef(pc, r); err != nil {
				return &Outcome{Err: fmt.Errorf("accepted program behaves differently from the resolved overloads: %v", err)}
			}
			for _, b := range r.Runs {
				if !sameTrace(b.O.Trace, r.RefTrace) {
					return bad("%s ran other overloads than the rules resolve\n expected: %s\n observed: %s\n src: %s", b.O.Be, traceStr(r.RefTrace), traceStr(b.O.Trace), r.Src)
				}
			}
		}
	}
	if r.Checker.PolyComposite > 0 {
		classes = append(classes, "poly-at-composite")
	}
	if r.Checker.Candidates > 1 {
		classes = append(classes, "resolved-among>=2")
	}
	if pc.Stats["ov-call"] > 0 {
		classes = append(classes, "user-overload-call")
	}
	if r.Checker.BotSkips > 0 {
		classes = append(classes, "empty-literal-vs-concrete-poly-param")
	}
	return ok(r.Checker.PolyComposite > 0 || r.Checker.Candidates > 1, classes...)
}

var c05 = Register(&Prop[TypingCase]{ID: "C05", Name: "typing", Gen: genTypingCase, Check: checkC05})

func TestC05(t *testing.T) {
	R.Rule = "programs built by type-directed construction, 60% of them then changed by one type-breaking mutation from a catalogue of 20 (heterogeneous element / key / value, composite key, duplicate field, unknown field, subscript on non-container, wrong index / key type, arity +-1, undefined / reserved variable, optional for payload, inconsistent type variable, call of non-function, empty-literal mixing, ...); 0-5 additional overloads of one name (mono / poly, overlapping patterns, both field orders of an object parameter, result-only variable) registered in a drawn order, one set in four with one polymorphic function value registered a second time; oracle: reference checker verdict and type, Compile verdict on two back ends, and the overload that actually runs (marker values and call trace); non-trivial = a mutant the reference rejects, or an accepted program with a polymorphic instantiation at a composite type or a call resolved among >= 2 candidates"
	R.Assume = []string{"ref.Check encodes the typing rules of the property statement; the built-in table is cross-checked against fun.BuiltIn() on every run"}
	reportKnown(t, "C05")
	runRegress(t, "C05")
	c05.Run(t, budget(10000, 800000))
}
