package props

import (
	"fmt"
	"testing"

	"pgregory.net/rapid"

	"verif/gen"
	m "verif/model"
	"verif/ref"
	"verif/run"
)

// C04 — operators and built-in functions compute their documented results.

// domainSkip: reasons a case is outside the oracle's domain (never a verdict).
func domainSkip(r *CaseRun) string {
	if r.RefErr != nil {
		return "harness:reference-rejects-generated-program"
	}
	if r.RefFail != nil && r.RefFail.Kind == "domain" {
		return "domain:" + firstWord(r.RefFail.Msg)
	}
	if r.Flags["tolerance-edge"] > 0 {
		return "domain:tolerance-edge-pair-in-structural-equality"
	}
	if r.Flags["set-op-representative"] > 0 {
		return "domain:set-operation-over-equal-but-distinguishable-elements"
	}
	if r.Flags["nan-in-structural-eq"] > 0 {
		return "domain:nan-in-structural-equality"
	}
	if r.Flags["time-difference-beyond-duration-range"] > 0 {
		return "unspecified:time-difference-beyond-duration-range"
	}
	return ""
}

func firstWord(s string) string {
	for i, c := range s {
		if c == ' ' || c == '(' || c == ':' {
			return s[:i]
		}
	}
	return s
}

// knownFamilySkip: families of inputs covered by an OPEN finding in
// known_findings.json (excluded by construction, counted).
func knownFamilySkip(r *CaseRun) string {
	if r.Flags["equal-instants-different-zones"] > 0 && excludedFamily("equal-instants-different-zones") {
		return "known:equal-instants-different-zones"
	}
	return ""
}

func boundaryClasses(c *ProgCase, r *CaseRun) (classes []string, boundary bool) {
	seen := map[string]bool{}
	note := func(s string) {
		if !seen[s] {
			seen[s] = true
			classes = append(classes, s)
		}
	}
	var walkV func(v *m.Val)
	walkV = func(v *m.Val) {
		if v == nil {
			return
		}
		switch v.T.K {
		case m.TNum:
			x := float64(v.N)
			ax := x
			if ax < 0 {
				ax = -ax
			}
			switch {
			case x != x:
				note("nan")
			case ax > 1.7e308:
				note("inf")
			case ax >= 9223372036854775808:
				note(">=2^63")
			case ax > 9007199254740992:
				note(">2^53")
			case x == 0 && 1/x < 0:
				note("negative-zero")
			case ax > 0 && ax < 1e-8:
				note("tolerance-scale")
			}
		case m.TStr:
			for _, c := range v.S {
				if c >= 0x80 {
					note("non-ascii")
					break
				}
			}
		case m.TTime:
			note("time")
		}
		for _, x := range v.L {
			walkV(x)
		}
		for _, e := range v.M {
			walkV(e.K)
			walkV(e.V)
		}
		walkV(v.P)
	}
	walkV(r.RefVal)
	for _, v := range c.Vals {
		walkV(v)
	}
	c.E.Walk(func(e *m.Expr) {
		if e.K == "num" {
			if x, err := ref.ParseNumLit(e.Text); err == nil {
				walkV(m.VNum(x))
			}
		}
		if e.K == "str" {
			if s, err := ref.ParseStrLit(e.Text); err == nil {
				walkV(m.VStr(s))
			}
		}
		if e.K == "time" {
			note("time")
		}
	})
	for _, k := range []string{"duplicate-map-key"} {
		if r.Flags[k] > 0 {
			note(k)
		}
	}
	return classes, len(classes) > 0
}

// compareWithRef: every back end must agree with the reference verdict.
func compareWithRef(c *ProgCase, r *CaseRun) error {
	for _, b := range r.Runs {
		o := b.O
		if !o.Compiled() {
			return fmt.Errorf("%s: well-typed program does not compile: %s\n src: %s\n env: %s", o.Be, describeOutcome(b), r.Src, envSummary(c))
		}
		if r.RefFail != nil {
			if !o.Failed() {
				return fmt.Errorf("%s: expected failure (%s) but got %s\n src: %s\n env: %s", o.Be, r.RefFail, describeOutcome(b), r.Src, envSummary(c))
			}
			continue
		}
		if o.Failed() {
			return fmt.Errorf("%s: expected value %s but evaluation failed: %s\n src: %s\n env: %s", o.Be, r.RefVal.Render(), describeOutcome(b), r.Src, envSummary(c))
		}
		if len(b.Probs) > 0 || b.Val == nil {
			return fmt.Errorf("%s: result is not a well-formed %s: %v\n src: %s\n env: %s", o.Be, r.RefType, b.Probs, r.Src, envSummary(c))
		}
		if !m.Identical(b.Val, r.RefVal) {
			return fmt.Errorf("%s: value %s, documented semantics give %s\n src: %s\n env: %s", o.Be, b.Val.Render(), r.RefVal.Render(), r.Src, envSummary(c))
		}
	}
	for _, b := range r.Runs {
		if b.Again != "" {
			return fmt.Errorf("%s: %s\n src: %s\n env: %s", b.O.Be, b.Again, r.Src, envSummary(c))
		}
	}
	return nil
}

func genProgCase(o gen.ProgOpt, extra []ref.FunSig) func(t *rapid.T) *ProgCase {
	return func(t *rapid.T) *ProgCase {
		g := gen.NewG(t, o)
		want := g.AnyResultType()
		var e *m.Expr
		if o.Harness && rapid.IntRange(0, 3).Draw(t, "traced") == 0 {
			// every operand position reports to the host function tr: the order of evaluation is observable
			e = g.ExprTraced(want)
			g.Stats["every-operand-traced"]++
		} else {
			e = g.Expr(want)
		}
		pc := &ProgCase{E: e, Env: g.Env, Vals: g.Vals, Extra: extra, Stats: g.Stats}
		if o.Sugar && rapid.IntRange(0, 3).Draw(t, "printopt") == 0 {
			pc.Print = m.PrintOpt{Tight: rapid.Bool().Draw(t, "tight"), TrailingComma: rapid.Bool().Draw(t, "trailing")}
		}
		return pc
	}
}

func checkC04(c *ProgCase) *Outcome {
	if err := checkBuiltInTable(); err != nil {
		return &Outcome{Err: err}
	}
	r := refRun(c)
	if s := domainSkip(r); s != "" {
		return skip(s)
	}
	if s := knownFamilySkip(r); s != "" {
		return skip(s)
	}
	runBackends(c, r, []run.Backend{run.VMSwitch, run.Closure})
	if err := compareWithRef(c, r); err != nil {
		return &Outcome{Err: err}
	}
	classes, boundary := boundaryClasses(c, r)
	if r.RefFail != nil {
		classes = append(classes, "fails:"+r.RefFail.Kind)
	} else {
		classes = append(classes, "result:"+string(r.RefType.K))
	}
	for k := range c.Stats {
		classes = append(classes, "uses:"+k)
	}
	return ok(boundary, classes...)
}

var c04opt = gen.ProgOpt{Fuel: 4, Partial: true, Sugar: true, NonFinite: true, Maybe: true, Times: true, Print: false}

var c04 = Register(&Prop[ProgCase]{ID: "C04", Name: "programs-vs-reference", Gen: genProgCase(c04opt, nil), Check: checkC04})

func TestC04(t *testing.T) {
	R.Rule = "well-typed programs built by type-directed construction from literals (all number/string/time forms), variables, operators and every documented built-in, over generated environments, compared with the reference evaluator (numbers bit-exact, composites element by element) on the VM and the closure back end; plus every built-in applied to all tuples of the boundary pools; non-trivial = an operand, literal or result from a boundary class (tolerance scale, -0, >2^53, >=2^63, non-finite, non-ASCII, time, duplicate map key)"
	R.Assume = []string{"ref.Eval (harness) encodes the documented semantics (DESIGN.md Appendix A); string()/print text is characterised from the pinned code", "TZ=UTC; absolute time forms only"}
	reportKnown(t, "C04")
	runRegress(t, "C04")
	if Tier == "thorough" {
		c04ops.Each(t, "boundary-pools-large", eachOpCase(true, 60000))
	} else {
		c04ops.Each(t, "boundary-pools-core", eachOpCase(false, 1500))
	}
	c04.Run(t, budget(6000, 400000))
}

// genProgCaseNoPick: programs with the harness functions except lz_pick
// (generated programs may still mention it; they are rewritten to lz_if-free leaves)
func genProgCaseNoPick(o gen.ProgOpt) func(t *rapid.T) *ProgCase {
	o.NoPick = true
	inner := genProgCase(o, c19harness)
	return inner
}
