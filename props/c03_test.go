package props

import (
	"fmt"
	"github.com/goghcrow/yae/compiler"
	"regexp"
	"strings"
	"testing"

	"pgregory.net/rapid"

	"verif/gen"
	m "verif/model"
	"verif/ref"
	"verif/run"
)

// C03 — all execution back ends are observationally equivalent.

type StressCase struct {
	Kind string `json:"kind"`
	N    int    `json:"n"`
	Sel  bool   `json:"sel,omitempty"`
}

// capacityExceeded: does the program exceed the VM's documented encoding
// capacity (65 535 constants or literal members, 255 call arguments)? The
// 16-bit absolute jump targets are part of the same encoding: a program with a
// lazy construct whose code may reach 65 536 bytes (no instruction takes more than 8
// bytes per tree node, so fewer than 8 192 nodes can never get there) may be
// refused at compile time as well; whether it is refused or compiled, what is
// emitted must still verify (C11) and agree (C03).
func capacityExceeded(core *m.Expr) bool {
	consts := 0
	over := false
	lazy := false
	core.Walk(func(e *m.Expr) {
		if e.K == "call" && (e.Name == "if" || e.Name == "&&" || e.Name == "||" || strings.HasPrefix(e.Name, "lz_")) {
			lazy = true
		}
		switch e.K {
		case "num", "str", "bool", "time", "var":
			consts++
		case "list", "obj":
			consts++
			if len(e.A) > 65535 {
				over = true
			}
		case "map":
			consts++
			if len(e.A)/2 > 65535 {
				over = true
			}
		case "call":
			consts++
			if len(e.A) > 255 {
				over = true
			}
		case "dcall":
			if len(e.A)-1 > 255 {
				over = true
			}
		case "member":
			consts++
		}
	})
	return over || consts > 65535 || lazy && core.Size()*8 >= 65536
}

// compareBackends is the differential oracle.
func compareBackends(c *ProgCase, r *CaseRun) (err error, skipFamily string) {
	ref0 := -1
	for i, b := range r.Runs {
		o := b.O
		if o.CompilePan != nil {
			return fmt.Errorf("%s: Compile panicked: %s\n src: %s", o.Be, o.CompilePan.Text, clip(r.Src)), ""
		}
		if o.Compiled() && ref0 < 0 {
			ref0 = i
		}
	}
	if ref0 < 0 {
		return nil, "not-accepted"
	}
	for _, b := range r.Runs {
		if !b.O.Compiled() {
			vm := b.O.Be == run.VMSwitch || b.O.Be == run.VMCall
			if vm && capacityExceeded(r.Core) {
				continue // the one permitted difference
			}
			return fmt.Errorf("%s rejects a program that %s accepts: %s\n src: %s", b.O.Be, r.Runs[ref0].O.Be, describeOutcome(b), clip(r.Src)), ""
		}
	}
	a := r.Runs[ref0]
	for _, b := range r.Runs {
		if !b.O.Compiled() || b == a {
			continue
		}
		// F20: the call-threaded loop gives up after 1024 instructions
		if b.O.Be == run.VMCall && b.O.Failed() && strings.Contains(b.O.FailText(), "over exec limit") && !a.O.Failed() {
			if excludedFamily("callthread-exec-limit") {
				return nil, "known:callthread-exec-limit"
			}
		}
		if a.O.Failed() != b.O.Failed() {
			return fmt.Errorf("%s: %s\n but %s: %s\n src: %s\n env: %s", a.O.Be, describeOutcome(a), b.O.Be, describeOutcome(b), clip(r.Src), envSummary(c)), ""
		}
		if !sameTrace(a.O.Trace, b.O.Trace) {
			return fmt.Errorf("host functions invoked differently\n %s: %s\n %s: %s\n src: %s", a.O.Be, traceStr(a.O.Trace), b.O.Be, traceStr(b.O.Trace), clip(r.Src)), ""
		}
		if a.O.Failed() {
			continue
		}
		if len(a.Probs) > 0 || len(b.Probs) > 0 || a.Val == nil || b.Val == nil {
			// F12 (open): one instant in two zones is two map keys; the checked walk reads that as
			// two entries under one key. Same family as in C01 / C18, excluded and counted.
			if strings.Contains(strings.Join(append(append([]string(nil), a.Probs...), b.Probs...), " "), "two entries denote the same key @") && excludedFamily("equal-instants-different-zones") {
				return nil, "known:equal-instants-different-zones"
			}
			return fmt.Errorf("malformed result: %s: %v / %s: %v\n src: %s", a.O.Be, a.Probs, b.O.Be, b.Probs, clip(r.Src)), ""
		}
		if !m.Identical(a.Val, b.Val) {
			return fmt.Errorf("%s yields %s but %s yields %s\n src: %s\n env: %s", a.O.Be, a.Val.Render(), b.O.Be, b.Val.Render(), clip(r.Src), envSummary(c)), ""
		}
	}
	// the second invocation of each Callable: a back end that then behaves differently from its
	// own first invocation differs from the back ends that do not
	for _, b := range r.Runs {
		if b.Again != "" {
			return fmt.Errorf("%s: %s\n src: %s\n env: %s", b.O.Be, b.Again, clip(r.Src), envSummary(c)), ""
		}
	}
	return nil, ""
}

func clip(s string) string {
	if len(s) > 700 {
		return s[:700] + fmt.Sprintf("...(%d bytes)", len(s))
	}
	return s
}

// vmSpecial: constructs the VM treats specially (C03's non-triviality rule).
func vmSpecial(c *ProgCase, r *CaseRun) (classes []string) {
	seen := map[string]bool{}
	note := func(s string) {
		if !seen[s] {
			seen[s] = true
			classes = append(classes, s)
		}
	}
	intrinsics := map[string]bool{"+": true, "-": true, "*": true, "/": true, "%": true, "^": true, "==": true, "!=": true, "<": true, "<=": true, ">": true, ">=": true,
		"abs": true, "ceil": true, "floor": true, "round": true, "len": true, "strtotime": true}
	consts := 0
	r.Core.Walk(func(e *m.Expr) {
		switch e.K {
		case "call":
			switch {
			case e.Name == "if" || e.Name == "&&" || e.Name == "||":
				note("conditional-jump")
			case e.Name == "!":
				note("logical-not")
			case strings.HasPrefix(e.Name, "lz_"):
				note("thunk")
				for _, a := range e.A {
					a.Walk(func(x *m.Expr) {
						if x.K == "call" && strings.HasPrefix(x.Name, "lz_") {
							note("nested-thunk")
						}
					})
				}
			case intrinsics[e.Name] || ((e.Name == "max" || e.Name == "min") && len(e.A) == 2) || (e.Name == "get" && len(e.A) == 2):
				note("intrinsic-opcode")
			default:
				note("call-by-value")
			}
			consts++
		case "dcall":
			note("dynamic-call")
		case "list", "map", "obj":
			if len(e.A) > 1 {
				note("literal>1")
			}
			consts++
		case "member":
			note("member-load")
		case "index":
			note("subscript")
		default:
			consts++
		}
	})
	if consts > 255 {
		note("consts>255")
	}
	if r.Flags["duplicate-map-key"] > 0 {
		note("duplicate-map-key")
	}
	return
}

func checkC03(c *ProgCase) *Outcome {
	if c.Stats["dynamic-call-of-lazy-value"] > 0 && excludedFamily("lazy-function-value-dynamic-call") {
		return skip("known:lazy-function-value-dynamic-call")
	}
	r := fullRun(c)
	err, fam := compareBackends(c, r)
	if err != nil {
		return &Outcome{Err: err}
	}
	if fam != "" {
		return skip(fam)
	}
	// the public two-step route: Expr.Parse once, then Expr.CompileExpr on that one tree
	if o := twoStepRoute(c, r); o != nil {
		return o
	}
	classes := vmSpecial(c, r)
	if r.Runs[0].O.Failed() {
		classes = append(classes, "all-fail")
	} else {
		classes = append(classes, "all-value")
	}
	return ok(len(classes) > 1, classes...)
}

var c03opt = gen.ProgOpt{Fuel: 4, Partial: true, Sugar: true, NonFinite: true, Maybe: true, Times: true, Harness: true, Poison: true, LazyValues: true, Zones: true}

var c03 = Register(&Prop[ProgCase]{ID: "C03", Name: "differential", Gen: genProgCase(c03opt, run.StdHarness), Check: checkC03})

func stressProg(s *StressCase) *ProgCase {
	var e *m.Expr
	e = gen.StressFixed(s.Kind, s.N, s.Sel)
	extra := run.StdHarness
	switch s.Kind {
	case "many-args", "many-lazy-args":
		// a strict and a lazy host function of exactly n parameters
		ps := make([]*m.Type, s.N)
		for i := range ps {
			ps[i] = m.Num
		}
		extra = append(append([]ref.FunSig(nil), extra...),
			ref.FunSig{Name: "ov", Params: ps, Ret: m.Str, Impl: "ov#many"},
			ref.FunSig{Name: "lz_last", Params: ps, Ret: m.Num, Impl: "lz_last", Lazy: true})
	}
	return &ProgCase{E: e, Env: map[string]*m.Type{}, Vals: map[string]*m.Val{}, Extra: extra}
}

func checkC03Stress(s *StressCase) *Outcome {
	c := stressProg(s)
	var r *CaseRun
	if s.N > astModeFrom {
		r = refRun(c)
		if r.RefErr == nil {
			runBackendsAST(c, r, run.AllBackends)
		}
	} else {
		r = fullRun(c)
	}
	if r.RefErr != nil {
		return &Outcome{Err: fmt.Errorf("harness: stress program rejected by the reference: %v", r.RefErr)}
	}
	err, fam := compareBackends(c, r)
	if err != nil {
		return &Outcome{Err: err}
	}
	if fam != "" {
		return skip(fam)
	}
	// the reference must agree as well (these programs are total)
	if r.RefFail == nil {
		for _, b := range r.Runs {
			if b.O.Compiled() && !b.O.Failed() && b.Val != nil && !m.Identical(b.Val, r.RefVal) {
				return bad("%s yields %s, expected %s (stress %s n=%d)", b.O.Be, b.Val.Render(), r.RefVal.Render(), s.Kind, s.N)
			}
		}
	}
	return ok(true, "stress:"+s.Kind, fmt.Sprintf("stress-n:%d", s.N))
}

var c03stress = Register(&Prop[StressCase]{ID: "C03", Name: "stress", Check: checkC03Stress})

var stressSizes = []int{3, 41, 42, 43, 44, 100, 255, 256, 257, 600}

func eachStress(extraSizes []int) func(yield func(*StressCase) bool) {
	return func(yield func(*StressCase) bool) {
		for _, k := range gen.StressKinds {
			sizes := append([]int(nil), stressSizes...)
			for _, n := range extraSizes {
				// the capacity classes (tens of thousands of members) only make sense for
				// wide literals; deep nests of that size would only measure recursion depth
				// sizes above astModeFrom are compiled from the tree, not from source text
				// (the lexer copies the rest of the input for every token, so a 200 KB
				// source takes about a minute to lex)
				if n <= 2000 || strings.HasPrefix(k, "wide") {
					sizes = append(sizes, n)
				}
			}
			if strings.HasPrefix(k, "many-") {
				// argument counts around the 8-bit operand
				sizes = []int{1, 3, 200, 254, 255, 256, 257, 300}
			}
			if k == "long-arms" {
				// around the 16-bit jump range: 12 bytes of code per unit of n, the jumps of the
				// second conditional stop fitting at n = 5457 (compiled from the tree)
				sizes = append(sizes, 5400, 5450, 5456, 5457, 5458, 5470, 8000)
			}
			for _, n := range sizes {
				for _, sel := range []bool{false, true} {
					if k != "long-arms" && sel {
						continue
					}
					if !yield(&StressCase{Kind: k, N: n, Sel: sel}) {
						return
					}
				}
			}
		}
	}
}

func TestC03(t *testing.T) {
	R.Rule = "well-typed programs (type-directed construction, with harness-registered strict / lazy / polymorphic functions, function-typed values called dynamically, poisoned operands) over generated conforming environments, run on VM/switch, VM/call-threaded, closure and interpreter: equal values (numbers bit-exact), all fail or none, identical host-function call traces; the same through Expr.Parse + Expr.CompileExpr on one tree compiled before and afterwards against sibling types (VM, closure, interpreter); the same programs on engines where host functions were registered, after the first use, under the name and parameter types of monomorphic built-ins (abs, max, min, -, *): whichever function a call means, all back ends agree; stress classes beyond 42 stack slots / 255 operands; non-trivial = uses a construct the VM treats specially (intrinsic opcode, conditional jump, thunk, nested thunk, dynamic call, literal with >1 member, duplicate map key, >255 constants)"
	R.Assume = []string{"differential oracle only; agreement of four wrong back ends is C04's subject"}
	reportKnown(t, "C03")
	runRegress(t, "C03")
	var big []int
	if Tier == "thorough" {
		big = []int{1000, 5000, 65535, 65536, 70000}
	}
	c03stress.Each(t, "stress-classes", eachStress(big))
	c03.Run(t, budget(8000, 480000))
	c03override.Run(t, budget(2500, 120000))
	c03src.Run(t, budget(12000, 640000))
}

var _ = ref.BuiltIns

// ---- arbitrary source strings that happen to compile

type SrcCase struct {
	Src string `json:"src"`
}

var srcEnvTypes = map[string]*m.Type{
	"a": m.Num, "b": m.Bool, "s": m.Str, "x": m.Num, "xs": m.List(m.Num), "mp": m.Map(m.Str, m.Num),
	"o": m.Obj(m.Field{Name: "a", T: m.Num}, m.Field{Name: "b", T: m.Str}), "t": m.Time,
}

var srcEnvVals = map[string]*m.Val{
	"a": m.VNum(2), "b": m.VBool(true), "s": m.VStr("aé"), "x": m.VNum(-1.5), "xs": m.VList(m.Num, m.VNum(1), m.VNum(2), m.VNum(2)),
	"mp": m.VMap(m.Str, m.Num, m.Entry{K: m.VStr("k"), V: m.VNum(7)}),
	"o":  m.VObj(m.Obj(m.Field{Name: "b", T: m.Str}, m.Field{Name: "a", T: m.Num}), m.VStr("y"), m.VNum(3)), "t": m.VTimeUnix(86400),
}

func genSrcCase(t *rapid.T) *SrcCase {
	c := genAPICase(t)
	if rapid.IntRange(0, 2).Draw(t, "useenvnames") > 0 {
		// splice environment names / calls in, so that more strings type-check
		parts := []string{c.Src}
		for i := rapid.IntRange(0, 3).Draw(t, "nsplice"); i > 0; i-- {
			parts = append(parts, pick2(t, []string{"+", "==", "&&", "?", ":", ",", "(", ")", "[", "]", ".", "a", "x", "xs", "mp", "o.a", "o.b", "s", "b", "xs[0]", `mp["k"]`, "len(xs)", "max(xs)", "string(a)", "1", `"q"`, "true", "if(b, a, x)", "get(xs, 5, 0)"}))
		}
		for i := len(parts) - 1; i > 0; i-- {
			j := rapid.IntRange(0, i).Draw(t, "shuf")
			parts[i], parts[j] = parts[j], parts[i]
		}
		c.Src = strings.Join(parts, " ")
	}
	return &SrcCase{Src: c.Src}
}

var (
	timeLitRe   = regexp.MustCompile(`'[^']*'`)
	strtotimeRe = regexp.MustCompile(`strtotime`)
)

// clockDependent: a time literal that is not one of the absolute forms reads the wall clock
// ('t', 'now', '+1 day' ...), and so may any strtotime call on a computed string: two back ends
// run at different instants and may legitimately differ.
func clockDependent(src string) bool {
	if strtotimeRe.MatchString(src) {
		return true
	}
	for _, lit := range timeLitRe.FindAllString(src, -1) {
		abs := false
		for _, t := range gen.TimeTexts {
			if lit == "'"+t+"'" {
				abs = true
			}
		}
		if !abs {
			return true
		}
	}
	return strings.Count(src, "'")%2 == 1
}

func checkSrcDiff(c *SrcCase) *Outcome {
	if clockDependent(c.Src) {
		return skip("domain:source-may-read-the-wall-clock")
	}
	pc := &ProgCase{Env: srcEnvTypes, Vals: srcEnvVals, Extra: run.StdHarness}
	r := &CaseRun{Src: c.Src, Core: &m.Expr{K: "var", Name: "?"}, Flags: map[string]int{}}
	for _, be := range run.AllBackends {
		en := run.NewEngine(be, pc.Extra)
		o := en.RunSrc(c.Src, pc.Env, pc.Vals)
		br := &BackendRun{O: o}
		if o.Compiled() && !o.Failed() {
			br.Val, br.Probs = run.FromYaeVal(o.Val, nil)
		}
		r.Runs = append(r.Runs, br)
	}
	err, fam := compareBackends(pc, r)
	if err != nil {
		return &Outcome{Err: err}
	}
	if fam != "" {
		return skip(fam)
	}
	cls := "all-value"
	if r.Runs[0].O.Failed() {
		cls = "all-fail"
	}
	return ok(true, "arbitrary-source-that-compiles", cls)
}

var c03src = Register(&Prop[SrcCase]{ID: "C03", Name: "source-strings", Gen: genSrcCase, Check: checkSrcDiff})

// ---- host functions that take the place of a built-in: same name and parameter types as a
// monomorphic built-in (abs, max, min, binary - and *), registered after the engine's first
// use; whichever function a call then means, it is the same one on every back end (values,
// failures and the host-call trace coincide)

var builtinOverrides = []ref.FunSig{
	{Name: "abs", Params: []*m.Type{m.Num}, Ret: m.Num, Impl: "hpost"},
	{Name: "max", Params: []*m.Type{m.Num, m.Num}, Ret: m.Num, Impl: "hsub"},
	{Name: "min", Params: []*m.Type{m.Num, m.Num}, Ret: m.Num, Impl: "hsub"},
	{Name: "-", Params: []*m.Type{m.Num, m.Num}, Ret: m.Num, Impl: "hsub"},
	{Name: "*", Params: []*m.Type{m.Num, m.Num}, Ret: m.Num, Impl: "hsub"},
	{Name: "-", Params: []*m.Type{m.Num}, Ret: m.Num, Impl: "hpost"},
}

func checkOverride(c *ProgCase) *Outcome {
	r := refRun(c)
	if r.RefErr != nil {
		return skip("harness:reference-rejects-generated-program")
	}
	r.Runs = nil
	for _, be := range run.AllBackends {
		en := run.NewEngine(be, c.Extra)
		if _, err := en.E.Compile("1", nil); err != nil {
			return bad("harness: first use of the engine failed: %v", err)
		}
		for _, f := range builtinOverrides {
			en.E.RegisterFun(run.MakeHarnessFun(f, en.Tr))
		}
		o := en.RunSrc(r.Src, c.Env, c.Vals)
		b := &BackendRun{O: o}
		if o.Compiled() && !o.Failed() {
			b.Val, b.Probs = run.FromYaeVal(o.Val, r.RefType)
		}
		r.Runs = append(r.Runs, b)
	}
	err, fam := compareBackends(c, r)
	if err != nil {
		return &Outcome{Err: fmt.Errorf("with host functions registered over abs / max / min / - / * after the engine's first use: %v", err)}
	}
	if fam != "" {
		return skip(fam)
	}
	uses := false
	r.Core.Walk(func(e *m.Expr) {
		if e.K == "call" {
			switch e.Name {
			case "abs", "max", "min", "-", "*":
				uses = true
			}
		}
	})
	return ok(uses, fmt.Sprintf("calls-an-overridden-built-in:%v", uses))
}

// (no lazy function VALUES here: calling one through a non-identifier callee is the open finding F21)
var c03overrideOpt = gen.ProgOpt{Fuel: 4, Partial: true, Sugar: true, NonFinite: true, Maybe: true, Times: true, Harness: true, Poison: true}
var c03override = Register(&Prop[ProgCase]{ID: "C03", Name: "overridden-built-ins", Gen: genProgCase(c03overrideOpt, run.StdHarness), Check: checkOverride})

// twoStepRoute: the public two-step route - Expr.Parse once, then Expr.CompileExpr on that one
// tree: first against sibling typing environments (verdict ignored), then against the real one,
// then against the siblings once more (a closure keeps meaning what it was compiled as when its
// tree is compiled again). VM, closure compiler and AST interpreter must end like the Callable of
// r.Runs[0], with a well-formed value of the inferred type.
func twoStepRoute(c *ProgCase, r *CaseRun) *Outcome {
	first := r.Runs[0]
	if !first.O.Compiled() {
		return nil
	}
	for _, be := range []run.Backend{run.VMSwitch, run.Closure, run.Interp} {
		en := run.NewEngine(be, c.Extra)
		var cl compiler.Closure
		if p := run.Guard(func() {
			parsed := en.E.Parse(r.Src)
			_ = run.Guard(func() { en.E.CompileExpr(parsed, run.TypeEnv(siblingTypes(c.Env))) })
			_ = run.Guard(func() { en.E.CompileExpr(parsed, run.TypeEnv(siblingKinds(c.Env))) })
			cl = en.E.CompileExpr(parsed, run.TypeEnv(c.Env))
			_ = run.Guard(func() { en.E.CompileExpr(parsed, run.TypeEnv(siblingTypes(c.Env))) })
			_ = run.Guard(func() { en.E.CompileExpr(parsed, run.TypeEnv(siblingKinds(c.Env))) })
		}); p != nil {
			return bad("%s: Expr.Parse + Expr.CompileExpr (the tree compiled before against sibling types) fails: %s; Compile on the text succeeds\n src: %s\n env: %s", be, p.Text, clip(r.Src), envSummary(c))
		}
		o := &run.Outcome{Be: be}
		en.Tr.Reset()
		ve := en.ValEnvWithFuns(c.Vals)
		o.RunPan = run.Guard(func() { o.Val = cl(ve) })
		o.Trace = en.Tr.Snapshot()
		b := &BackendRun{O: o}
		if !o.Failed() {
			b.Val, b.Probs = run.FromYaeVal(o.Val, r.RefType)
		}
		if o.Failed() != first.O.Failed() {
			return bad("%s through Expr.Parse + Expr.CompileExpr (tree compiled before and afterwards against sibling types): %s; through Compile: %s\n src: %s\n env: %s", be, describeOutcome(b), describeOutcome(first), clip(r.Src), envSummary(c))
		}
		if !o.Failed() && (len(b.Probs) > 0 || b.Val == nil || first.Val == nil || !m.Identical(first.Val, b.Val)) {
			return bad("%s through Expr.Parse + Expr.CompileExpr (tree compiled before and afterwards against sibling types) yields %s (%v); through Compile %s\n src: %s\n env: %s", be, renderVal(o.Val), b.Probs, first.Val.Render(), clip(r.Src), envSummary(c))
		}
		if !sameTrace(o.Trace, first.O.Trace) {
			return bad("%s through Expr.Parse + Expr.CompileExpr invokes host functions differently: %s; through Compile: %s\n src: %s", be, traceStr(o.Trace), traceStr(first.O.Trace), clip(r.Src))
		}
	}
	return nil
}
