package props

import (
	"fmt"
	"regexp"
	"strings"
	"sync"
	"sync/atomic"
	"testing"

	"github.com/goghcrow/yae"
	"github.com/goghcrow/yae/parser/ast"
	"github.com/goghcrow/yae/val"
	"pgregory.net/rapid"

	"verif/gen"
	m "verif/model"
	"verif/run"
)

// C14 — compiled expressions and independent engines are safe for concurrent use.
// Built with -race; the race detector halts the process on the first report
// (GORACE=halt_on_error=1), which the driver turns into a violation with the
// workload breadcrumb as replay file.

type COp struct {
	Kind string `json:"kind"` // own: compile+invoke on an engine of its own | shared: compile on the shared, initialised engine | invoke: a shared callable | eval: one-shot Eval
	Prog int    `json:"prog"`
	Var  int    `json:"var,omitempty"` // which variant of the environment's values: 0 = Vals; k > 0 = Vals with every string salted (strings the process has never seen)
}

type CWorker struct {
	Spin int   `json:"spin"` // busy iterations before starting (varies the overlap)
	Ops  []COp `json:"ops"`
}

type ConcCase struct {
	Exprs   []*m.Expr          `json:"exprs"`
	Env     map[string]*m.Type `json:"env"`
	Vals    map[string]*m.Val  `json:"vals"`
	Workers []CWorker          `json:"workers"`
	NVar    int                `json:"nvar,omitempty"` // number of salted variants
	// Rejected: source texts derived from the programs that (mostly) do not compile - cut short,
	// closers missing, dangling operators, unknown names; op kind "reject" compiles one of them on
	// an engine of its own (or through Eval) and the error text must be the one it gets alone
	Rejected []string `json:"rejected,omitempty"`
}

var tyVarCounter = regexp.MustCompile(`([A-Za-z_])\d+`)

// rejectText: the outcome of compiling (and, should it compile, evaluating) a source; the
// process-wide counter in the names of type variables is not part of the outcome
func rejectText(v *val.Val, err error, p *run.Panic) string {
	switch {
	case p != nil:
		return "panic: " + tyVarCounter.ReplaceAllString(p.Text, "$1#")
	case err != nil:
		return "error: " + tyVarCounter.ReplaceAllString(err.Error(), "$1#")
	case v == nil:
		return "nil"
	}
	return v.String()
}

// caseSeq numbers the workloads of this process: part of the salt, so that
// salted strings are new to every process-wide cache keyed by run-time text.
var caseSeq int64

func saltStrings(v *m.Val, salt string) *m.Val {
	if v == nil {
		return nil
	}
	n := &m.Val{T: v.T, N: v.N, S: v.S, B: v.B, Tm: v.Tm, Fn: v.Fn}
	if v.T.K == m.TStr {
		n.S = v.S + salt
	}
	for _, e := range v.L {
		n.L = append(n.L, saltStrings(e, salt))
	}
	for _, e := range v.M {
		n.M = append(n.M, m.Entry{K: saltStrings(e.K, salt), V: saltStrings(e.V, salt)})
	}
	n.P = saltStrings(v.P, salt)
	return n
}

func genConcCase(t *rapid.T) *ConcCase {
	o := gen.ProgOpt{Fuel: 3, Partial: true, Sugar: true, Maybe: true, Times: true, HostEnv: true, Harness: true}
	g := gen.NewG(t, o)
	c := &ConcCase{}
	n := rapid.IntRange(2, 6).Draw(t, "nprogs")
	for i := 0; i < n; i++ {
		if i == 0 || rapid.IntRange(0, 3).Draw(t, "textkeyed") == 0 {
			// built-ins whose work depends on run-time TEXT (patterns, time strings):
			// whatever they memoise process-wide is keyed by data, not by the program
			p, sv := g.FreshVar(m.Str, m.VStr(pick2(t, []string{"a", "^a", "[a-z]+", "\\d+", ".*", "(?i)ab", "b$", "(", "x{2,1}"}))), g.FreshVar(m.Str, nil)
			switch rapid.IntRange(0, 2).Draw(t, "textkind") {
			case 0:
				c.Exprs = append(c.Exprs, m.Call("match", p, sv))
			case 1:
				c.Exprs = append(c.Exprs, m.Call("if", m.Call("match", p, sv), g.Expr(m.Num), g.Expr(m.Num)))
			default:
				c.Exprs = append(c.Exprs, m.Infix("&&", m.Call("match", p, sv), m.Call("match", sv, p)))
			}
			continue
		}
		if i == 1 {
			// set operations over a list from the environment (three distinct elements: assembled
			// with Add its slice has spare capacity) and a right operand built per evaluation
			l := g.FreshVar(m.List(m.Str), m.VList(m.Str, m.VStr("a"), m.VStr("b"), m.VStr("c")))
			sv := g.FreshVar(m.Str, nil)
			switch rapid.IntRange(0, 2).Draw(t, "setkind") {
			case 0:
				c.Exprs = append(c.Exprs, m.Call("string", m.Call("union", l, m.ListE(sv, m.Lit("str", `"z"`)))))
			case 1:
				c.Exprs = append(c.Exprs, m.Call("len", m.Call("union", l, m.Call("union", m.ListE(sv), l.Clone()))))
			default:
				c.Exprs = append(c.Exprs, m.Call("string", m.ListE(m.Call("diff", l, m.ListE(sv)), m.Call("intersect", l.Clone(), m.ListE(sv.Clone(), m.Lit("str", `"a"`))))))
			}
			continue
		}
		if rapid.IntRange(0, 2).Draw(t, "renders") == 0 {
			// programs whose first evaluation renders / hashes composite values built from literals
			// (type objects hanging off the shared compiled expression): string(), set operations
			ot := m.Obj(m.Field{Name: "b", T: m.Num}, m.Field{Name: "a", T: g.AnyResultType()}, m.Field{Name: "c", T: m.Str})
			lit := func() *m.Expr {
				return m.ObjE([]string{"c", "b", "a"}, []*m.Expr{g.Expr(m.Str), g.Expr(m.Num), g.Expr(ot.F[1].T)})
			}
			switch rapid.IntRange(0, 2).Draw(t, "renderkind") {
			case 0:
				c.Exprs = append(c.Exprs, m.Call("string", lit()))
			case 1:
				c.Exprs = append(c.Exprs, m.Call("len", m.Call("union", m.ListE(lit(), lit()), m.ListE(lit()))))
			default:
				c.Exprs = append(c.Exprs, m.Call("string", m.ListE(m.MapE(g.Expr(m.Str), lit()), m.MapE(g.Expr(m.Str), lit()))))
			}
			continue
		}
		c.Exprs = append(c.Exprs, g.Expr(g.AnyResultType()))
	}
	for i := 0; i < n; i++ {
		src := []rune(m.Print(c.Exprs[i], m.PrintOpt{}))
		switch rapid.IntRange(0, 7).Draw(t, "rejectkind") {
		case 0:
			c.Rejected = append(c.Rejected, string(src[:rapid.IntRange(0, len(src)).Draw(t, "cut")]))
		case 1:
			c.Rejected = append(c.Rejected, string(src)+" +")
		case 2:
			c.Rejected = append(c.Rejected, "len("+string(src))
		case 3:
			c.Rejected = append(c.Rejected, "["+string(src)+", ")
		case 4:
			c.Rejected = append(c.Rejected, "{a: "+string(src))
		case 5:
			c.Rejected = append(c.Rejected, string(src)+".")
		case 6:
			c.Rejected = append(c.Rejected, string(src)+" == undefined_name_q")
		default:
			c.Rejected = append(c.Rejected, "[1: "+string(src)+"][")
		}
	}
	c.NVar = rapid.IntRange(1, 4).Draw(t, "nvar")
	c.Env, c.Vals = g.Env, map[string]*m.Val{}
	for name, v := range g.Vals {
		v = v.Conform(nil)
		c.Vals[name], c.Env[name] = v, v.T
	}
	w := rapid.IntRange(4, 32).Draw(t, "workers")
	for i := 0; i < w; i++ {
		wk := CWorker{Spin: rapid.IntRange(0, 2000).Draw(t, "spin")}
		k := rapid.IntRange(2, 8).Draw(t, "nops")
		for j := 0; j < k; j++ {
			wk.Ops = append(wk.Ops, COp{Kind: pick2(t, []string{"own", "own", "shared", "invoke", "invoke", "eval", "tree", "reject", "debug", "invoke-shared-env"}), Prog: rapid.IntRange(0, n-1).Draw(t, "prog"), Var: rapid.IntRange(0, c.NVar).Draw(t, "var")})
		}
		c.Workers = append(c.Workers, wk)
	}
	return c
}

func outcomeString(v *val.Val, err error, p *run.Panic) string {
	switch {
	case p != nil:
		return "fails"
	case err != nil:
		return "fails"
	case v == nil:
		return "nil"
	}
	return v.String()
}

var spinSink int64

// newConcEngine: an engine with the harness's strict / lazy / polymorphic
// functions registered; every other one uses the closure back end.
func newConcEngine(i int) *yae.Expr {
	be := run.VMSwitch
	if i%3 == 2 {
		be = run.Closure
	}
	return run.NewEngine(be, run.StdHarness).E
}

func checkConc(c *ConcCase) *Outcome {
	srcs := make([]string, len(c.Exprs))
	for i, e := range c.Exprs {
		srcs[i] = m.Print(e, m.PrintOpt{})
	}
	hostOK := run.HostableEnv(c.Env) && !envHasFun(c.Env)
	usesHarness := make([]bool, len(c.Exprs))
	for i, e := range c.Exprs {
		e.Walk(func(x *m.Expr) {
			if x.K == "call" || x.K == "mcall" {
				if run.IsHarnessName(x.Name) {
					usesHarness[i] = true
				}
			}
		})
	}
	seq := atomic.AddInt64(&caseSeq, 1)
	variants := make([]map[string]*m.Val, c.NVar+1)
	variants[0] = c.Vals
	for k := 1; k <= c.NVar; k++ {
		variants[k] = map[string]*m.Val{}
		for name, v := range c.Vals {
			variants[k][name] = saltStrings(v, fmt.Sprintf("~%d.%d", seq, k))
		}
	}
	hosts := make([]interface{}, len(variants))
	if hostOK {
		for k := range variants {
			hosts[k] = run.EnvStruct(variants[k])
		}
	}
	en := run.NewEngine(run.VMSwitch, nil)
	freshVals := func(k int) *val.Env { return en.ValEnv(variants[k]) }
	// one pre-built environment object per variant that every goroutine may hand to a shared
	// Callable (evaluation only reads it); its containers are assembled with ListVal.Add /
	// MapVal.Put, as a host that builds values by hand does (slices with spare capacity)
	sharedEnvs := make([]*val.Env, len(variants))
	for k := range variants {
		sharedEnvs[k] = en.ValEnvIncremental(variants[k])
	}
	// ---- sequential baseline BEFORE the concurrent phase: each program alone on variant 0.
	// (The salted variants get their baseline AFTER the concurrent phase: running
	// them alone first would hand every text-keyed process-wide cache its entries
	// single-threaded, and the concurrent phase would only ever read them.)
	compileErr := make([]bool, len(srcs))
	alone := make([][]string, len(srcs))
	runAlone := func(i, k int) string {
		e := newConcEngine(i)
		var cl yae.Callable
		var cerr error
		if p := run.Guard(func() { cl, cerr = e.Compile(srcs[i], run.TypeEnv(c.Env)) }); p != nil || cerr != nil {
			return "does-not-compile"
		}
		var v *val.Val
		var err error
		p := run.Guard(func() { v, err = cl(freshVals(k)) })
		return outcomeString(v, err, p)
	}
	for i := range srcs {
		alone[i] = make([]string, len(variants))
		alone[i][0] = runAlone(i, 0)
		compileErr[i] = alone[i][0] == "does-not-compile"
	}
	// one-shot debug evaluation (an engine and a record of its own per call): over the host struct,
	// or - for programs that cannot go that way - a closed program with no environment at all
	closedSrcs := []string{"1 + 2 * 3", "len([1, 2]) > 1", "max(1 + 1, 3) == 3", "\"a\" + \"b\" == \"ab\""}
	runDebug := func(prog, variant int) string {
		var v *val.Val
		var err error
		var report string
		var p *run.Panic
		if hostOK && !usesHarness[prog] {
			p = run.Guard(func() { v, report, err = yae.Debug(srcs[prog], hosts[variant]) })
		} else {
			p = run.Guard(func() { v, report, err = yae.Debug(closedSrcs[prog%len(closedSrcs)], nil) })
		}
		return rejectText(v, err, p) + "\n" + report
	}
	rejectAlone := make([]string, len(c.Rejected))
	runReject := func(i, engine int) string {
		var v *val.Val
		var err error
		p := run.Guard(func() {
			var cl yae.Callable
			cl, err = newConcEngine(engine).Compile(c.Rejected[i], run.TypeEnv(c.Env))
			if err == nil {
				v, err = cl(freshVals(0))
			}
		})
		return rejectText(v, err, p)
	}
	for i := range c.Rejected {
		rejectAlone[i] = runReject(i, 0)
		for _, engine := range []int{2, 0, 2} {
			if again := runReject(i, engine); again != rejectAlone[i] && strings.HasPrefix(again, "error") && strings.HasPrefix(rejectAlone[i], "error") {
				rejectAlone[i] = "" // the refusal is worded differently from one time to the next even alone (or between the two back ends): not compared
			}
		}
	}
	// ---- the shared engine has finished its first compilation; shared callables exist
	// two shared engines (VM and closure back end); program i's shared callable comes from engine i%2
	sharedEngines := []*yae.Expr{newConcEngine(0), newConcEngine(2), newConcEngine(0), newConcEngine(2)}
	sharedCl := make([]yae.Callable, len(srcs))
	for i, e := range sharedEngines {
		// the first compilation an engine finishes may be an accepted one, one that the parser
		// refuses, or one that the type checker refuses
		first := []string{"1", "1", "1 + * 2", "1 + true"}[i]
		if _, err := e.Compile(first, run.TypeEnv(c.Env)); (err != nil) != (i >= 2) {
			return bad("harness: warm-up compile of %q: %v", first, err)
		}
	}
	for i, src := range srcs {
		if compileErr[i] {
			continue
		}
		cl, cerr := sharedEngines[i%2].Compile(src, run.TypeEnv(c.Env))
		if cerr != nil {
			return bad("harness: shared compile failed: %v", cerr)
		}
		sharedCl[i] = cl
	}
	// one parsed tree per program (public Expr.Parse), compiled by several goroutines at once on
	// engines of their own (public Expr.CompileExpr): a compilation only reads its input tree
	parsedTree := make([]ast.Expr, len(srcs))
	for i, src := range srcs {
		if compileErr[i] {
			continue
		}
		if p := run.Guard(func() { parsedTree[i] = newConcEngine(0).Parse(src) }); p != nil {
			return bad("harness: parse failed: %s", p.Text)
		}
	}
	// ---- the concurrent phase
	var inflight, overlapped, total int64
	var wg sync.WaitGroup
	type opResult struct{ got, detail string }
	results := make([][]opResult, len(c.Workers))
	start := make(chan struct{})
	for wi, wk := range c.Workers {
		wg.Add(1)
		results[wi] = make([]opResult, len(wk.Ops))
		go func(wi int, wk CWorker) {
			defer wg.Done()
			<-start
			x := int64(0)
			for i := 0; i < wk.Spin; i++ {
				x += int64(i)
			}
			atomic.AddInt64(&spinSink, x)
			for oi, op := range wk.Ops {
				if op.Kind == "reject" {
					if len(c.Rejected) == 0 {
						continue
					}
					if atomic.AddInt64(&inflight, 1) > 1 {
						atomic.AddInt64(&overlapped, 1)
					}
					atomic.AddInt64(&total, 1)
					got := runReject(op.Prog%len(c.Rejected), (wi+oi)%2*2) // an engine of its own, VM or closure back end alike
					atomic.AddInt64(&inflight, -1)
					results[wi][oi] = opResult{got, ""}
					continue
				}
				if compileErr[op.Prog] {
					continue
				}
				if op.Var < 0 || op.Var >= len(variants) {
					op.Var = 0
				}
				if op.Kind == "debug" {
					if atomic.AddInt64(&inflight, 1) > 1 {
						atomic.AddInt64(&overlapped, 1)
					}
					atomic.AddInt64(&total, 1)
					got := runDebug(op.Prog, op.Var)
					atomic.AddInt64(&inflight, -1)
					results[wi][oi] = opResult{got, ""}
					continue
				}
				if atomic.AddInt64(&inflight, 1) > 1 {
					atomic.AddInt64(&overlapped, 1)
				}
				atomic.AddInt64(&total, 1)
				var v *val.Val
				var err error
				var p *run.Panic
				tenv, venv := run.TypeEnv(c.Env), freshVals(op.Var)
				switch op.Kind {
				case "own":
					p = run.Guard(func() {
						var cl yae.Callable
						cl, err = newConcEngine(wi+oi).Compile(srcs[op.Prog], tenv)
						if err == nil {
							v, err = cl(venv)
						}
					})
				case "shared":
					p = run.Guard(func() {
						var cl yae.Callable
						cl, err = sharedEngines[(wi+oi)%len(sharedEngines)].Compile(srcs[op.Prog], tenv)
						if err == nil {
							v, err = cl(venv)
						}
					})
				case "tree":
					p = run.Guard(func() {
						cl := newConcEngine(wi+oi).CompileExpr(parsedTree[op.Prog], tenv)
						v = cl(venv)
					})
				case "eval":
					if hostOK && !usesHarness[op.Prog] {
						p = run.Guard(func() { v, err = yae.Eval(srcs[op.Prog], hosts[op.Var]) })
					} else {
						p = run.Guard(func() { v, err = sharedCl[op.Prog](venv) })
					}
				case "invoke-shared-env":
					if sharedEnvs[op.Var] != nil {
						venv = sharedEnvs[op.Var]
					}
					p = run.Guard(func() { v, err = sharedCl[op.Prog](venv) })
				default:
					p = run.Guard(func() { v, err = sharedCl[op.Prog](venv) })
				}
				atomic.AddInt64(&inflight, -1)
				results[wi][oi] = opResult{outcomeString(v, err, p), fmt.Sprintf("err=%v panic=%v", err, p)}
			}
		}(wi, wk)
	}
	close(start)
	wg.Wait()
	// ---- baseline AFTER the concurrent phase for the salted variants
	for i := range srcs {
		for k := 1; k < len(variants); k++ {
			if !compileErr[i] {
				alone[i][k] = runAlone(i, k)
			}
		}
	}
	var mismatch []string
	salted := 0
	rejects, debugs := 0, 0
	debugAlone := map[[2]int]string{}
	for wi, wk := range c.Workers {
		for oi, op := range wk.Ops {
			if op.Kind == "reject" {
				if len(c.Rejected) == 0 {
					continue
				}
				ri := op.Prog % len(c.Rejected)
				if want := rejectAlone[ri]; want != "" {
					rejects++
					if r := results[wi][oi]; r.got != want {
						mismatch = append(mismatch, fmt.Sprintf("worker %d op %d (compile %q on an engine of its own): %q, alone %q", wi, oi, c.Rejected[ri], r.got, want))
					}
				}
				continue
			}
			if compileErr[op.Prog] {
				continue
			}
			if op.Var < 0 || op.Var >= len(variants) {
				op.Var = 0
			}
			if op.Kind == "debug" {
				debugs++
				k := [2]int{op.Prog, op.Var}
				want, done := debugAlone[k]
				if !done {
					want = runDebug(op.Prog, op.Var)
					debugAlone[k] = want
				}
				if r := results[wi][oi]; r.got != want {
					mismatch = append(mismatch, fmt.Sprintf("worker %d op %d (one-shot Debug of prog %d variant %d): %q, alone %q", wi, oi, op.Prog, op.Var, r.got, want))
				}
				continue
			}
			if op.Var > 0 {
				salted++
			}
			if r := results[wi][oi]; r.got != alone[op.Prog][op.Var] {
				mismatch = append(mismatch, fmt.Sprintf("worker %d op %d (%s prog %d variant %d): %q, alone %q (%s)", wi, oi, op.Kind, op.Prog, op.Var, r.got, alone[op.Prog][op.Var], r.detail))
			}
		}
	}
	R.Class("operations-on-text-new-to-the-process", salted)
	R.Class("compilations-of-rejected-sources", rejects)
	R.Class("one-shot-debug-evaluations", debugs)
	if len(mismatch) > 0 {
		return bad("concurrent outcomes differ from the outcomes of the same operations run alone:\n  %s\n programs: %s", strings.Join(mismatch, "\n  "), strings.Join(srcs, " ;; "))
	}
	R.Class("operations", int(total))
	R.Class("operations-overlapping-another", int(overlapped))
	classes := []string{fmt.Sprintf("workers:%d", (len(c.Workers)/8)*8)}
	return ok(total > 0 && overlapped*10 >= total*5, classes...)
}

var c14 = Register(&Prop[ConcCase]{ID: "C14", Name: "concurrent-workloads", Gen: genConcCase, Check: checkConc})

func TestC14(t *testing.T) {
	R.Rule = "generated workloads under the race detector: 4-32 goroutines, each a drawn sequence of 2-8 operations over 2-6 generated programs (mono / poly calls, built-in and user-registered lazy functions incl. ones that force a thunk twice, dynamic calls, literals, programs that render or hash object literals on their first evaluation, set operations over a list from the environment): compile + invoke on an engine of its own, compile on a shared engine that has finished its first compilation (an accepted one, one refused by the parser, or one refused by the type checker), invoke a shared callable (with an environment of its own, or with ONE pre-built environment object shared by all goroutines, its containers assembled through ListVal.Add / MapVal.Put), one-shot Eval, compile one shared parsed tree (Expr.Parse once, Expr.CompileExpr per goroutine on an engine of its own), one-shot Debug (over the host struct, or of a closed program with no environment; value and report must be the ones it gives alone), compile a source that is refused (a program cut short, with a closer missing, a dangling operator or an unknown name) on an engine of its own - the error text, positions included, must be the one the same source gets alone; drawn busy-spin start offsets; oracle: no race report (the detector halts the run; the workload is the replay file) and the environment's values in 1-5 variants (the drawn values, and copies whose every string carries a salt unique to the workload, so that built-ins working on run-time text — match with the pattern from the environment in at least one program per workload — meet text new to the process while other goroutines are inside them); every operation's outcome equals the outcome of the same operation run alone (beforehand for the drawn values, afterwards for the salted ones); non-trivial = at least half of the workload's operations started while another goroutine was inside yae (atomic in-flight counter)"
	R.Assume = []string{"the Go scheduler owns the interleaving: this samples schedules, it does not enumerate them", "the race detector has no false positives"}
	reportKnown(t, "C14")
	runRegress(t, "C14")
	c14.Run(t, budget(120, 3000))
}

func envHasFun(env map[string]*m.Type) bool {
	for _, t := range env {
		if t.HasKind(m.TFun) {
			return true
		}
	}
	return false
}
