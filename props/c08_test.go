package props

import (
	"fmt"
	"sort"
	"strings"
	"testing"

	"pgregory.net/rapid"

	m "verif/model"
	"verif/ref"
	"verif/run"
)

// C08 — parsing honours precedence, associativity and fixity for any operator table.

type ParseCase struct {
	Ops  []ref.Op `json:"ops,omitempty"` // nil = built-in table
	Src  string   `json:"src"`
	Tree *m.Expr  `json:"tree,omitempty"` // the tree the source was rendered from (groups removed), if any
	Mode string   `json:"mode,omitempty"` // full | minimal | redundant | tokens
	// tables with which the same source was parsed earlier in this process (their result is
	// not looked at): a parser must depend on its own declarations only
	Prev [][]ref.Op `json:"prev,omitempty"`
	// Facade: the operators are registered on a yae.Expr (on top of the built-in table) and the
	// source is parsed by Expr.Parse; 2 = registered after the engine has already parsed once
	Facade int `json:"facade,omitempty"`
}

func (c *ParseCase) table() []ref.Op {
	if c.Ops == nil {
		return ref.BuiltInOps
	}
	if c.Facade > 0 {
		return append(append([]ref.Op(nil), c.Ops...), ref.BuiltInOps...)
	}
	return c.Ops
}

// mixedAssoc: two infix-role operators of equal power and different
// associativity both occur in the token list (the declarations do not
// dictate a tree then).
func mixedAssoc(toks []ref.Tok, ops []ref.Op) bool {
	type role struct {
		bp  float64
		fix string
	}
	present := map[role]bool{}
	inf := map[string]ref.Op{}
	for _, o := range ops {
		if o.Fix != "prefix" {
			inf[o.Name] = o
		}
	}
	for _, t := range toks {
		if o, okk := inf[t.Kind]; okk {
			present[role{o.BP, o.Fix}] = true
		}
		switch t.Kind {
		case "?":
			present[role{ref.BPCond, "infixr"}] = true
		case ".", "[":
			present[role{ref.BPMember, "postfix-like"}] = true
		case "(":
			present[role{ref.BPCall, "postfix-like"}] = true
		}
	}
	by := map[float64]map[string]bool{}
	for r := range present {
		if by[r.bp] == nil {
			by[r.bp] = map[string]bool{}
		}
		by[r.bp][r.fix] = true
	}
	for _, fs := range by {
		if len(fs) > 1 {
			return true
		}
	}
	return false
}

func comparePositions(got, want *m.Expr, path string) error {
	if got.Start != want.Start || got.End != want.End || got.Line != want.Line || got.Col != want.Col {
		return fmt.Errorf("node %s (%s): recorded span [%d,%d) line %d col %d, its text is [%d,%d) line %d col %d",
			path, want.K, got.Start, got.End, got.Line, got.Col, want.Start, want.End, want.Line, want.Col)
	}
	for i := range want.A {
		if err := comparePositions(got.A[i], want.A[i], fmt.Sprintf("%s/%d", path, i)); err != nil {
			return err
		}
	}
	return nil
}

func checkParse(c *ParseCase) *Outcome {
	ops := c.table()
	desc := func() string {
		if c.Ops == nil {
			return fmt.Sprintf("src %q (built-in table)", c.Src)
		}
		return fmt.Sprintf("src %q table %v", c.Src, c.Ops)
	}
	toks, lerr := ref.Lex(c.Src, ref.OpNames(ops))
	// the real lexer must produce the same tokens, otherwise the case belongs to C09
	ytoks, lp := yaeLex(c.Src, ref.OpNames(ops))
	if (lerr != nil) != (lp != nil) || len(toks) != len(ytoks) {
		return skip("lexer-disagrees-with-lexicon(C09)")
	}
	for i := range toks {
		if toks[i].Kind != ytoks[i].Kind || toks[i].Idx != ytoks[i].Idx {
			return skip("lexer-disagrees-with-lexicon(C09)")
		}
	}
	if lerr != nil {
		return skip("does-not-lex")
	}
	want, info, werr := ref.Parse(toks, ops)
	for _, prev := range c.Prev {
		_, _ = run.YaeParse(c.Src, prev)
	}
	tree, p := run.YaeParse(c.Src, c.Ops)
	if c.Facade > 0 {
		tree, p = run.YaeParseFacade(c.Src, c.Ops, c.Facade == 2)
	}
	if p != nil && p.Runtime {
		return bad("parser failed with a runtime error instead of a syntax error: %s (%s)", p.Text, desc())
	}
	if info.UnspecMember {
		return skip("unspecified:member-name-not-identifier")
	}
	mixed := mixedAssoc(toks, ops)
	if (werr != nil) != (p != nil) {
		if mixed {
			return skip("unspecified:equal-power-different-associativity")
		}
		if werr != nil {
			return bad("parser accepts what the declarations reject (%v): parsed as %s (%s)", werr, run.FromAst(tree), desc())
		}
		return bad("parser rejects what the declarations accept as %s: %s (%s)", want, p.Text, desc())
	}
	classes := []string{"mode:" + c.Mode}
	if len(c.Prev) > 0 {
		classes = append(classes, "after-sibling-table")
	}
	if c.Facade > 0 {
		classes = append(classes, fmt.Sprintf("through-engine:late-registration=%v", c.Facade == 2))
	}
	if c.Ops != nil {
		classes = append(classes, "custom-table")
	}
	if werr != nil {
		classes = append(classes, "rejected")
		if strings.Contains(werr.Error(), "non-associative") {
			classes = append(classes, "non-assoc-chain-rejected")
			return ok(true, classes...)
		}
		return ok(len(toks) >= 3, classes...)
	}
	got := run.FromAst(tree)
	if mixed {
		classes = append(classes, "equal-power-mixed-assoc(tree-not-compared)")
	} else if !m.SameTree(got, want) {
		return bad("parsed as %s, the declarations dictate %s (%s)", got, want, desc())
	}
	if c.Tree != nil && !mixed {
		if !m.SameTree(got.StripGroups(), c.Tree.StripGroups()) {
			return bad("rendering (%s) of tree %s parsed as %s (%s)", c.Mode, c.Tree.StripGroups(), got.StripGroups(), desc())
		}
	}
	if m.SameTree(got, want) {
		if err := comparePositions(got, want, "$"); err != nil {
			return bad("%v (%s)", err, desc())
		}
	}
	// ---- classes / non-triviality
	opsSeen := map[string]bool{}
	kinds := map[string]bool{}
	maxSpan := 0
	want.Walk(func(e *m.Expr) {
		kinds[e.K] = true
		if e.K == "infix" || e.K == "prefix" || e.K == "postfix" {
			opsSeen[e.K+":"+e.Name] = true
		}
	})
	for _, t := range toks {
		_ = t
	}
	if len(toks) > maxSpan {
		maxSpan = len(toks)
	}
	for k := range kinds {
		switch k {
		case "tern", "mcall", "dcall", "member", "index", "postfix", "prefix", "group", "map", "obj":
			classes = append(classes, "node:"+k)
		}
	}
	if strings.Contains(c.Src, "\n") {
		classes = append(classes, "multi-line")
	}
	nontrivial := len(opsSeen) >= 2 || (kinds["prefix"] || kinds["postfix"]) && kinds["infix"] || maxSpan >= 3 && len(kinds) >= 2
	return ok(nontrivial, classes...)
}

var c08 = Register(&Prop[ParseCase]{ID: "C08", Name: "parser-vs-declarations", Gen: genParseCase, Check: checkParse})

// ---------------------------------------------------------------- generators

var symPool = []string{"+", "-", "*", "/", "%", "^", "<", ">", "=", "!", "&", "|", "~", "@", "#", "$", "**", "++", "<=", "=>", "<=>", "||", "&&", "!=", "==", "->", "..", "?.",
	"and", "or", "not", "div", "mod", "在", "op_1"}
var bpPool = []float64{0.5, 1, 1.5, 2, 2.5, 3, 4, 5, 6, 6.5, 7, 7.5, 8, 9, 9.5, 10, 11, 12, 12.5, 13, 13.5,
	// powers far above the built-in ones, all exact in float32 (the engine's BP type): the spacing of float32 values
	// grows with the magnitude, so "just below this power" must be computed in float32 steps, not with a fixed epsilon
	14, 20, 32, 32.5, 33, 40, 64, 100, 1000, 4096.5, 1048576, 16777216}

func genTable(t *rapid.T) []ref.Op {
	if rapid.IntRange(0, 3).Draw(t, "builtin") == 0 {
		return nil
	}
	n := rapid.IntRange(1, 8).Draw(t, "nops")
	pool := append([]string(nil), symPool...)
	var ops []ref.Op
	for i := 0; i < n && len(pool) > 0; i++ {
		j := rapid.IntRange(0, len(pool)-1).Draw(t, "sym")
		name := pool[j]
		pool = append(pool[:j], pool[j+1:]...)
		fix := []string{"prefix", "postfix", "infixl", "infixl", "infixr", "infixr", "infixn"}[rapid.IntRange(0, 6).Draw(t, "fix")]
		bp := bpPool[rapid.IntRange(0, len(bpPool)-1).Draw(t, "bp")]
		ops = append(ops, ref.Op{Name: name, BP: bp, Fix: fix})
		// a symbol may be prefix AND one infix / postfix role
		if fix != "prefix" && rapid.IntRange(0, 4).Draw(t, "alsoprefix") == 0 {
			ops = append(ops, ref.Op{Name: name, BP: bpPool[rapid.IntRange(0, len(bpPool)-1).Draw(t, "bp2")], Fix: "prefix"})
		}
	}
	return ops
}

type treeGen struct {
	t    *rapid.T
	pre  []ref.Op
	post []ref.Op
	inf  []ref.Op
}

var atomNames = []string{"a", "b", "c", "x1", "名", "_u"}
var memberNames = []string{"f", "g", "len", "true", "false", "名"}

func (g *treeGen) atom() *m.Expr {
	switch rapid.IntRange(0, 7).Draw(g.t, "atom") {
	case 0:
		return m.Lit("num", pick2(g.t, []string{"1", "0", "2.5", "1e3", "0x1F", "0b10"}))
	case 1:
		return m.Lit("str", pick2(g.t, []string{`"s"`, "`r`", `"a b"`}))
	case 2:
		return m.Lit("bool", pick2(g.t, []string{"true", "false"}))
	case 3:
		return m.Lit("time", "'2020-01-01'")
	default:
		return m.V(pick2(g.t, atomNames))
	}
}

func (g *treeGen) tree(d int) *m.Expr {
	if d <= 0 {
		return g.atom()
	}
	type alt func() *m.Expr
	alts := []alt{g.atom}
	add := func(w int, f alt) {
		for i := 0; i < w; i++ {
			alts = append(alts, f)
		}
	}
	if len(g.inf) > 0 {
		add(6, func() *m.Expr { return m.Infix(pick2(g.t, g.inf).Name, g.tree(d-1), g.tree(d-1)) })
	}
	if len(g.pre) > 0 {
		add(2, func() *m.Expr { return m.Prefix(pick2(g.t, g.pre).Name, g.tree(d-1)) })
	}
	if len(g.post) > 0 {
		add(2, func() *m.Expr { return m.Postfix(pick2(g.t, g.post).Name, g.tree(d-1)) })
	}
	add(2, func() *m.Expr { return m.Tern(g.tree(d-1), g.tree(d-1), g.tree(d-1)) })
	add(1, func() *m.Expr { return m.Member(g.tree(d-1), pick2(g.t, memberNames)) })
	add(1, func() *m.Expr { return m.Index(g.tree(d-1), g.tree(d-1)) })
	add(1, func() *m.Expr {
		n := rapid.IntRange(0, 2).Draw(g.t, "nargs")
		args := make([]*m.Expr, n)
		for i := range args {
			args[i] = g.tree(d - 1)
		}
		return m.Call(pick2(g.t, []string{"f", "g", "max"}), args...)
	})
	add(1, func() *m.Expr {
		n := rapid.IntRange(0, 2).Draw(g.t, "nargs")
		args := make([]*m.Expr, n)
		for i := range args {
			args[i] = g.tree(d - 1)
		}
		return m.MCall(pick2(g.t, memberNames), g.tree(d-1), args...)
	})
	add(1, func() *m.Expr {
		callee := g.tree(d - 1)
		if callee.K == "var" {
			callee = m.Index(callee, g.atom())
		}
		if callee.K == "member" {
			// o.f(x) is method-call notation; the dynamic call of a field's value needs parentheses
			callee = m.Group(callee)
		}
		return m.DCall(callee, g.tree(d-1))
	})
	add(1, func() *m.Expr {
		n := rapid.IntRange(0, 3).Draw(g.t, "nel")
		xs := make([]*m.Expr, n)
		for i := range xs {
			xs[i] = g.tree(d - 1)
		}
		return m.ListE(xs...)
	})
	add(1, func() *m.Expr {
		n := rapid.IntRange(0, 2).Draw(g.t, "npairs")
		var xs []*m.Expr
		for i := 0; i < n; i++ {
			xs = append(xs, g.tree(d-1), g.tree(d-1))
		}
		return m.MapE(xs...)
	})
	add(1, func() *m.Expr {
		n := rapid.IntRange(0, 2).Draw(g.t, "nfields")
		keys := []string{"p", "q"}[:n]
		vals := make([]*m.Expr, n)
		for i := range vals {
			vals[i] = g.tree(d - 1)
		}
		return m.ObjE(keys, vals)
	})
	return alts[rapid.IntRange(0, len(alts)-1).Draw(g.t, "treealt")]()
}

// fullParens wraps every non-atomic child in a group.
func fullParens(e *m.Expr) *m.Expr {
	n := *e
	n.A = make([]*m.Expr, len(e.A))
	for i, a := range e.A {
		c := fullParens(a)
		switch c.K {
		case "var", "num", "str", "bool", "time", "group", "list", "map", "obj":
		default:
			c = m.Group(c)
		}
		n.A[i] = c
	}
	return &n
}

// tokenPrint renders a tree as a token list joined by sep (every token
// separated, so that no two tokens can merge under any operator table).
func tokenPrint(e *m.Expr, out *[]string) {
	emit := func(s ...string) { *out = append(*out, s...) }
	list := func(xs []*m.Expr) {
		for i, x := range xs {
			if i > 0 {
				emit(",")
			}
			tokenPrint(x, out)
		}
	}
	switch e.K {
	case "num", "str", "bool", "time":
		emit(e.Text)
	case "var":
		emit(e.Name)
	case "group":
		emit("(")
		tokenPrint(e.A[0], out)
		emit(")")
	case "list":
		emit("[")
		list(e.A)
		emit("]")
	case "map":
		emit("[")
		if len(e.A) == 0 {
			emit(":")
		}
		for i := 0; i+1 < len(e.A); i += 2 {
			if i > 0 {
				emit(",")
			}
			tokenPrint(e.A[i], out)
			emit(":")
			tokenPrint(e.A[i+1], out)
		}
		emit("]")
	case "obj":
		emit("{")
		for i, a := range e.A {
			if i > 0 {
				emit(",")
			}
			emit(e.Keys[i], ":")
			tokenPrint(a, out)
		}
		emit("}")
	case "member":
		tokenPrint(e.A[0], out)
		emit(".", e.Name)
	case "index":
		tokenPrint(e.A[0], out)
		emit("[")
		tokenPrint(e.A[1], out)
		emit("]")
	case "call":
		emit(e.Name, "(")
		list(e.A)
		emit(")")
	case "dcall":
		tokenPrint(e.A[0], out)
		emit("(")
		list(e.A[1:])
		emit(")")
	case "mcall":
		tokenPrint(e.A[0], out)
		emit(".", e.Name, "(")
		list(e.A[1:])
		emit(")")
	case "prefix":
		emit(e.Name)
		tokenPrint(e.A[0], out)
	case "postfix":
		tokenPrint(e.A[0], out)
		emit(e.Name)
	case "infix":
		tokenPrint(e.A[0], out)
		emit(e.Name)
		tokenPrint(e.A[1], out)
	case "tern":
		tokenPrint(e.A[0], out)
		emit("?")
		tokenPrint(e.A[1], out)
		emit(":")
		tokenPrint(e.A[2], out)
	}
}

func joinTokens(t *rapid.T, toks []string) string {
	var b strings.Builder
	for i, s := range toks {
		if i > 0 {
			switch rapid.IntRange(0, 9).Draw(t, "gap") {
			case 0:
				b.WriteString("\n")
			case 1:
				b.WriteString("  ")
			case 2:
				b.WriteString(" \n  ")
			default:
				b.WriteString(" ")
			}
		}
		b.WriteString(s)
	}
	return b.String()
}

func renderTree(t *rapid.T, e *m.Expr) string {
	var toks []string
	tokenPrint(e, &toks)
	return joinTokens(t, toks)
}

// groups lists the group nodes of a tree as (parent, index) slots.
func groupSlots(e *m.Expr) []slotRef {
	var out []slotRef
	var w func(x *m.Expr)
	w = func(x *m.Expr) {
		for i, a := range x.A {
			if a.K == "group" {
				out = append(out, slotRef{x, i})
			}
			w(a)
		}
	}
	w(e)
	return out
}

type slotRef struct {
	parent *m.Expr
	idx    int
}

// minimalParens removes, in a drawn order, every group whose removal leaves
// the REFERENCE parse unchanged (so the remaining ones are required by the
// declarations as the reference reads them).
func minimalParens(t *rapid.T, full *m.Expr, ops []ref.Op, keepSome bool) *m.Expr {
	cur := full.Clone()
	target := full.StripGroups()
	names := ref.OpNames(ops)
	parses := func(e *m.Expr) bool {
		var toks []string
		tokenPrint(e, &toks)
		rt, err := ref.Lex(strings.Join(toks, " "), names)
		if err != nil {
			return false
		}
		tr, _, perr := ref.Parse(rt, ops)
		return perr == nil && m.SameTree(tr.StripGroups(), target)
	}
	slots := groupSlots(cur)
	order := make([]int, len(slots))
	for i := range order {
		order[i] = i
	}
	for i := len(order) - 1; i > 0; i-- {
		j := rapid.IntRange(0, i).Draw(t, "gorder")
		order[i], order[j] = order[j], order[i]
	}
	for _, k := range order {
		s := slots[k]
		g := s.parent.A[s.idx]
		if g.K != "group" {
			continue
		}
		if keepSome && rapid.IntRange(0, 3).Draw(t, "keep") == 0 {
			continue
		}
		s.parent.A[s.idx] = g.A[0]
		if !parses(cur) {
			s.parent.A[s.idx] = g
		}
	}
	return cur
}

// siblingTable perturbs a table the way two registrations in one program differ: powers that
// differ only in their fraction, swapped or shifted powers, one other fixity, another
// declaration order, one operator more or fewer.
func siblingTable(t *rapid.T, ops []ref.Op) []ref.Op {
	out := append([]ref.Op(nil), ops...)
	if len(out) == 0 {
		return out
	}
	fracs := []float64{0, 0.25, 0.5, 0.75}
	switch rapid.IntRange(0, 6).Draw(t, "sibling") {
	case 0:
		for i := range out {
			w := float64(int(out[i].BP)) + fracs[rapid.IntRange(0, 3).Draw(t, "frac")]
			if w <= 0 {
				w = 0.25
			}
			out[i].BP = float64(float32(w)) // the engine holds powers as float32: the reference must see the same number
		}
	case 1:
		i, j := rapid.IntRange(0, len(out)-1).Draw(t, "i"), rapid.IntRange(0, len(out)-1).Draw(t, "j")
		out[i].BP, out[j].BP = out[j].BP, out[i].BP
	case 2:
		for i := range out {
			if out[i].BP+1 <= 13.5 {
				out[i].BP++
			}
		}
	case 3:
		i := rapid.IntRange(0, len(out)-1).Draw(t, "i")
		if out[i].Fix != "prefix" && out[i].Fix != "postfix" {
			out[i].Fix = pick2(t, []string{"infixl", "infixr", "infixn"})
		}
	case 4:
		for i, j := 0, len(out)-1; i < j; i, j = i+1, j-1 {
			out[i], out[j] = out[j], out[i]
		}
	case 5:
		i := rapid.IntRange(0, len(out)-1).Draw(t, "i")
		name := out[i].Name
		var kept []ref.Op
		for _, o := range out {
			if o.Name != name {
				kept = append(kept, o)
			}
		}
		out = kept
	default:
		i := rapid.IntRange(0, len(out)-1).Draw(t, "i")
		out[i].BP = bpPool[rapid.IntRange(0, len(bpPool)-1).Draw(t, "bp")]
	}
	return out
}

func genParseCase(t *rapid.T) *ParseCase {
	c := genParseCase0(t)
	if rapid.IntRange(0, 2).Draw(t, "withprev") == 0 {
		n := rapid.IntRange(1, 2).Draw(t, "nprev")
		for i := 0; i < n; i++ {
			if sib := siblingTable(t, c.table()); len(sib) > 0 {
				c.Prev = append(c.Prev, sib)
			}
		}
	}
	return c
}

func genParseCase0(t *rapid.T) *ParseCase {
	c := &ParseCase{Ops: genTable(t)}
	if c.Ops != nil && rapid.IntRange(0, 3).Draw(t, "facade") == 0 {
		// through the engine: only operators whose names the built-in table does not use
		builtin := map[string]bool{}
		for _, o := range ref.BuiltInOps {
			builtin[o.Name] = true
		}
		var custom []ref.Op
		for _, o := range c.Ops {
			if !builtin[o.Name] {
				custom = append(custom, o)
			}
		}
		if len(custom) > 0 {
			c.Ops, c.Facade = custom, 1+rapid.IntRange(0, 1).Draw(t, "late")
		}
	}
	ops := c.table()
	g := &treeGen{t: t}
	for _, o := range ops {
		switch o.Fix {
		case "prefix":
			g.pre = append(g.pre, o)
		case "postfix":
			g.post = append(g.post, o)
		default:
			g.inf = append(g.inf, o)
		}
	}
	switch rapid.IntRange(0, 5).Draw(t, "mode") {
	case 5:
		// a bracket literal that mixes plain elements and key: value pairs, or leaves a pair
		// half-written: malformed whatever the operator table says
		c.Mode = "mixed-literal"
		n := rapid.IntRange(2, 4).Draw(t, "nentries")
		pairAt := rapid.IntRange(0, n-1).Draw(t, "pairat")
		invert := rapid.Bool().Draw(t, "invert") // all pairs but one plain element
		var toks []string
		toks = append(toks, "[")
		for i := 0; i < n; i++ {
			if i > 0 {
				toks = append(toks, ",")
			}
			tokenPrint(fullParens(g.tree(rapid.IntRange(0, 1).Draw(t, "edepth"))), &toks)
			if (i == pairAt) != invert {
				toks = append(toks, ":")
				tokenPrint(fullParens(g.tree(rapid.IntRange(0, 1).Draw(t, "vdepth"))), &toks)
			}
		}
		toks = append(toks, "]")
		// inside a larger expression half of the time
		switch rapid.IntRange(0, 3).Draw(t, "context") {
		case 0:
			toks = append(append([]string{"f", "("}, toks...), ")")
		case 1:
			toks = append(toks, "[", "0", "]")
		}
		c.Src = joinTokens(t, toks)
	case 0:
		c.Mode = "full"
		tr := g.tree(rapid.IntRange(1, 4).Draw(t, "depth"))
		c.Tree = tr
		c.Src = renderTree(t, fullParens(tr))
	case 1, 2:
		c.Mode = "minimal"
		tr := g.tree(rapid.IntRange(1, 4).Draw(t, "depth"))
		c.Tree = tr
		c.Src = renderTree(t, minimalParens(t, fullParens(tr), ops, false))
	case 3:
		c.Mode = "redundant"
		tr := g.tree(rapid.IntRange(1, 4).Draw(t, "depth"))
		c.Tree = tr
		c.Src = renderTree(t, minimalParens(t, fullParens(tr), ops, true))
	default:
		// token soup: operators, atoms and punctuation in random order, or a tree
		// rendered without any parentheses (so that non-associative chains,
		// mis-nested operators and malformed input all occur)
		c.Mode = "tokens"
		if rapid.Bool().Draw(t, "unparenthesised") {
			tr := g.tree(rapid.IntRange(1, 4).Draw(t, "depth"))
			c.Src = renderTree(t, tr)
		} else {
			var alphabet []string
			for _, o := range ops {
				alphabet = append(alphabet, o.Name)
			}
			alphabet = append(alphabet, "a", "b", "1", "(", ")", "[", "]", "{", "}", ",", ":", "?", ".", "f", `"s"`)
			n := rapid.IntRange(1, 9).Draw(t, "ntok")
			toks := make([]string, n)
			for i := range toks {
				toks[i] = pick2(t, alphabet)
			}
			c.Src = joinTokens(t, toks)
		}
	}
	return c
}

// ---------------------------------------------------------------- exhaustive token sequences

func eachTokenSeq(maxLen int, ops []ref.Op, alphabet []string) func(yield func(*ParseCase) bool) {
	return func(yield func(*ParseCase) bool) {
		idx := make([]int, maxLen)
		for n := 1; n <= maxLen; n++ {
			for i := range idx {
				idx[i] = 0
			}
			for {
				toks := make([]string, n)
				for i := 0; i < n; i++ {
					toks[i] = alphabet[idx[i]]
				}
				if !yield(&ParseCase{Ops: ops, Src: strings.Join(toks, " "), Mode: "tokens"}) {
					return
				}
				k := n - 1
				for k >= 0 {
					idx[k]++
					if idx[k] < len(alphabet) {
						break
					}
					idx[k] = 0
					k--
				}
				if k < 0 {
					break
				}
			}
		}
	}
}

var builtinAlphabet = []string{"a", "1", "-", "!", "*", "^", "==", "<", "||", "?", ":", "(", ")", "[", "]", ",", "."}

var fixedTables = [][]ref.Op{
	{{Name: "**", BP: 7.5, Fix: "infixr"}, {Name: "+", BP: 7, Fix: "infixl"}, {Name: "~", BP: 6.5, Fix: "infixn"}, {Name: "-", BP: 10, Fix: "prefix"}, {Name: "!", BP: 11, Fix: "postfix"}},
	{{Name: "=>", BP: 1.5, Fix: "infixr"}, {Name: "|", BP: 2.5, Fix: "infixl"}, {Name: "not", BP: 1, Fix: "prefix"}, {Name: "@", BP: 13.5, Fix: "infixl"}, {Name: "#", BP: 12.5, Fix: "prefix"}},
	{{Name: "<", BP: 6, Fix: "infixn"}, {Name: "<=", BP: 6, Fix: "infixn"}, {Name: "in", BP: 6, Fix: "infixn"}, {Name: "++", BP: 5.5, Fix: "postfix"}, {Name: "-", BP: 0.5, Fix: "prefix"}, {Name: "-", BP: 7, Fix: "infixl"}},
}

func tableAlphabet(ops []ref.Op) []string {
	seen := map[string]bool{}
	var out []string
	for _, o := range ops {
		if !seen[o.Name] {
			seen[o.Name] = true
			out = append(out, o.Name)
		}
	}
	sort.Strings(out)
	return append(out, "a", "1", "(", ")", "?", ":", ".", "[", "]")
}

func TestC08(t *testing.T) {
	R.Rule = "operator tables of 1-8 operators over a symbol alphabet (symbolic 1-3 characters, identifier-like incl. non-ASCII; prefix / postfix / infix left / right / non-associative; a symbol may be prefix and one other role; binding powers 0.5..13.5 incl. fractional, equal and built-in-colliding ones, and powers far above the built-in ones: 14..2^24, exact in float32) and the built-in table; expression trees to depth 4 over atoms, all operator kinds, ?:, calls, method calls, dynamic calls, members, subscripts and list / map / object literals, rendered fully parenthesised, with the minimal parentheses the reference needs, with redundant ones, or without any; random token soup; bracket literals mixing plain elements with key: value pairs (in a call, under a subscript, alone); exhaustive token sequences up to length 4 (quick) / 5 (thorough) over a 17-token alphabet for the built-in table and one shorter for three fixed custom tables; white space between tokens drawn from blanks and line breaks; one custom table in four is registered on a yae.Expr on top of the built-in table and parsed through Expr.Parse, half of those after the engine has already parsed something; one case in three first parses the same source with one or two sibling tables (powers differing only in the fraction, swapped / shifted powers, another fixity, reversed declaration order, one operator fewer) in the same process; oracle: reference precedence parser (accept / reject, tree, every node's span line and column), and round trip of the rendering; non-trivial = >= 2 different operators interacting, or a prefix / postfix next to an infix, or a rejected non-associative chain, or >= 3 tokens with >= 2 node kinds"
	R.Assume = []string{"ref.Parse is the reading of the declarations' meaning; tables where one symbol has two infix/postfix roles or re-declares . ? or punctuation are out of domain; member names that are not identifier-like and operators of equal power but different associativity are unspecified (counted, tree not compared)"}
	reportKnown(t, "C08")
	runRegress(t, "C08")
	maxLen := 4
	if Tier == "thorough" {
		maxLen = 5
	}
	c08.Each(t, fmt.Sprintf("builtin len<=%d", maxLen), eachTokenSeq(maxLen, nil, builtinAlphabet))
	for i, tb := range fixedTables {
		c08.Each(t, fmt.Sprintf("table%d len<=%d", i, maxLen-1), eachTokenSeq(maxLen-1, tb, tableAlphabet(tb)))
	}
	c08.Run(t, budget(12000, 960000))
}
