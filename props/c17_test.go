package props

import (
	"fmt"
	"sort"
	"strings"
	"testing"

	"github.com/goghcrow/yae/types"
	"pgregory.net/rapid"

	"verif/gen"
	"verif/model"
	"verif/run"
)

// C17 — unification and type equality are sound.

type UnifyCase struct {
	X     *model.Type `json:"x"`
	Y     *model.Type `json:"y"`
	Z     *model.Type `json:"z,omitempty"`
	Share bool        `json:"share,omitempty"`
	// ShareAcross: x and y also share their common sub-terms with each other
	ShareAcross bool `json:"shareAcross,omitempty"`
	// Arena: parameter / tuple element lists are consecutive slices of one backing array
	Arena bool `json:"arena,omitempty"`
}

// refMatch: does an instantiation of the variables of pattern p exist that
// makes it equal to the variable-free type g?  ⊥ inside g (the type of an
// empty container's elements) is accepted against any non-variable pattern
// part; a variable is instantiated to whatever it meets first and must meet
// structurally equal types afterwards.
func refMatch(p, g *model.Type, b map[string]*model.Type) bool {
	if p.K == model.TVar {
		if old, okk := b[p.N]; okk {
			return model.Equal(old, g)
		}
		b[p.N] = g
		return true
	}
	if g.K == model.TBot {
		return true
	}
	if p.K != g.K {
		return false
	}
	if p.K == model.TObj {
		if len(p.F) != len(g.F) {
			return false
		}
		for _, pf := range p.F {
			i := g.FieldIndex(pf.Name)
			if i < 0 || !refMatch(pf.T, g.F[i].T, b) {
				return false
			}
		}
		return true
	}
	if len(p.A) != len(g.A) {
		return false
	}
	for i := range p.A {
		if !refMatch(p.A[i], g.A[i], b) {
			return false
		}
	}
	return true
}

// covers: y is obtained from a by replacing some sub-terms with ⊥.
func covers(a, y *model.Type) bool {
	if y.K == model.TBot {
		return true
	}
	if a.K != y.K {
		return false
	}
	if a.K == model.TVar {
		return a.N == y.N
	}
	if a.K == model.TObj {
		if len(a.F) != len(y.F) {
			return false
		}
		for _, af := range a.F {
			i := y.FieldIndex(af.Name)
			if i < 0 || !covers(af.T, y.F[i].T) {
				return false
			}
		}
		return true
	}
	if len(a.A) != len(y.A) {
		return false
	}
	for i := range a.A {
		if !covers(a.A[i], y.A[i]) {
			return false
		}
	}
	return true
}

// botInsideFun: ⊥ occurs inside a function type.
func botInsideFun(t *model.Type, inFun bool) bool {
	if t.K == model.TBot {
		return inFun
	}
	in := inFun || t.K == model.TFun
	for _, a := range t.A {
		if botInsideFun(a, in) {
			return true
		}
	}
	for _, f := range t.F {
		if botInsideFun(f.T, in) {
			return true
		}
	}
	return false
}

// leftBotClash: along aligned constructors, x has ⊥ where y has a
// non-⊥, non-variable type.
func leftBotClash(x, y *model.Type) bool {
	if x.K == model.TBot {
		return y.K != model.TBot && y.K != model.TVar
	}
	if x.K != y.K || x.K == model.TVar {
		return false
	}
	if x.K == model.TObj {
		for _, xf := range x.F {
			if i := y.FieldIndex(xf.Name); i >= 0 && leftBotClash(xf.T, y.F[i].T) {
				return true
			}
		}
		return false
	}
	for i := range x.A {
		if i < len(y.A) && leftBotClash(x.A[i], y.A[i]) {
			return true
		}
	}
	return false
}

func substCyclic(s map[string]*model.Type) (string, bool) {
	state := map[string]int{}
	var visit func(v string) bool
	visit = func(v string) bool {
		switch state[v] {
		case 1:
			return true
		case 2:
			return false
		}
		state[v] = 1
		if t, okk := s[v]; okk && !(t.K == model.TVar && t.N == v) {
			for _, w := range t.FreeVars() {
				if visit(w) {
					return true
				}
			}
		}
		state[v] = 2
		return false
	}
	names := make([]string, 0, len(s))
	for v := range s {
		names = append(names, v)
	}
	sort.Strings(names)
	for _, v := range names {
		if visit(v) {
			return v, true
		}
	}
	return "", false
}

func guardUnify(x, y *types.Type, m map[string]*types.Type) (r *types.Type, p interface{}) {
	defer func() { p = recover() }()
	return types.Unify(x, y, m), nil
}
func guardEquals(x, y *types.Type) (r bool, p interface{}) {
	defer func() { p = recover() }()
	return types.Equals(x, y), nil
}

func hasRepeatedVarInContainer(t *model.Type) bool {
	count := map[string]int{}
	inContainer := false
	var w func(x *model.Type, depth int)
	w = func(x *model.Type, depth int) {
		if x.K == model.TVar {
			count[x.N]++
			if depth > 1 && count[x.N] > 1 {
				inContainer = true
			}
		}
		for _, a := range x.A {
			w(a, depth+1)
		}
		for _, f := range x.F {
			w(f.T, depth+1)
		}
	}
	w(t, 0)
	return inContainer
}

func checkUnify(c *UnifyCase) *Outcome {
	X, Y := c.X, c.Y
	ctx := run.NewTyCtx()
	ctx.Share = c.Share
	if c.Arena {
		ctx.Arena = run.NewArena()
	}
	// shared sub-terms: with Share, identical sub-terms inside ONE type are one
	// *types.Type; in every other case x and y are built from separate nodes, or
	// (ShareAcross) from one pool
	x := ctx.To(X)
	cy := ctx
	if c.Share && !c.ShareAcross {
		cy = ctx.Fork()
	}
	y := cy.To(Y)
	classes := []string{}
	nontrivial := false

	// ---- equality is an equivalence that coincides with structural identity
	for _, pr := range [][2]*types.Type{{x, x}, {y, y}} {
		if r, p := guardEquals(pr[0], pr[1]); p != nil || !r {
			return bad("Equals not reflexive on %s (panic=%v)", ctx.From(pr[0]), p)
		}
	}
	exy, p1 := guardEquals(x, y)
	eyx, p2 := guardEquals(y, x)
	if p1 != nil || p2 != nil {
		return bad("Equals panicked: %v %v", p1, p2)
	}
	want := model.Equal(X, Y)
	if exy != eyx {
		return bad("Equals not symmetric: Equals(x,y)=%v Equals(y,x)=%v for x=%s y=%s", exy, eyx, X.OrderString(), Y.OrderString())
	}
	if exy != want {
		return bad("Equals(x,y)=%v but structural identity is %v for x=%s y=%s", exy, want, X.OrderString(), Y.OrderString())
	}
	if want && X.OrderString() != Y.OrderString() {
		classes = append(classes, "equal-permuted")
		nontrivial = true
	}
	if c.Z != nil {
		z := ctx.Fork().To(c.Z)
		eyz, _ := guardEquals(y, z)
		exz, _ := guardEquals(x, z)
		if eyz != model.Equal(Y, c.Z) || exz != model.Equal(X, c.Z) {
			return bad("Equals disagrees with structural identity on z=%s", c.Z.OrderString())
		}
		if exy && eyz && !exz {
			return bad("Equals not transitive")
		}
	}
	if c.Share {
		classes = append(classes, "shared-subterms")
		nontrivial = nontrivial || X.Depth() > 1
	}
	// comparing types does not change them (nor a type that shares storage with them)
	unchanged := func(after string) *Outcome {
		if gx := ctx.From(x); gx.OrderString() != X.OrderString() {
			return bad("after %s the first type reads %s, it was built as %s (y=%s arena=%v share=%v)", after, gx.OrderString(), X.OrderString(), Y.OrderString(), c.Arena, c.Share)
		}
		if gy := ctx.From(y); gy.OrderString() != Y.OrderString() {
			return bad("after %s the second type reads %s, it was built as %s (x=%s arena=%v share=%v)", after, gy.OrderString(), Y.OrderString(), X.OrderString(), c.Arena, c.Share)
		}
		return nil
	}
	if o := unchanged("Equals"); o != nil {
		return o
	}
	if exy2, _ := guardEquals(x, y); exy2 != exy {
		return bad("Equals(x,y) answers %v and then %v for x=%s y=%s (arena=%v)", exy, exy2, X.OrderString(), Y.OrderString(), c.Arena)
	}
	if c.Arena && (X.HasKind(model.TFun) || Y.HasKind(model.TFun) || X.HasKind(model.TTuple)) {
		classes = append(classes, "lists-carved-from-one-array")
	}

	// ---- unification
	m := map[string]*types.Type{}
	r, pn := guardUnify(x, y, m)
	if pn != nil {
		// A two-sided problem whose only candidate unifier would put a non-primitive
		// type in a map-key position has no unifier; yae reports that through the
		// map constructor's refusal. That is "does not succeed", which is all the
		// property asks of such a pair. With a variable-free right side the
		// success-iff-instantiation clause applies and any panic is a violation.
		if !Y.Ground() && strings.Contains(fmt.Sprint(pn), "invalid type of map's key") {
			return ok(false, "two-sided-key-refusal")
		}
		// Variable-free right side: the clause is "succeeds exactly when an
		// instantiation exists". Where none exists (the variable in a key position
		// has already met a non-primitive type), the refusal of the map constructor
		// is again a way of not succeeding; only where an instantiation exists is a
		// panic a violation.
		if Y.Ground() && strings.Contains(fmt.Sprint(pn), "invalid type of map's key") && (X.HasKind(model.TBot) || !refMatch(X, Y, map[string]*model.Type{})) {
			return ok(false, "key-refusal-without-instantiation")
		}
		return bad("Unify panicked: %v  (x=%s y=%s share=%v)", pn, X.OrderString(), Y.OrderString(), c.Share)
	}
	sigma := map[string]*model.Type{}
	for yn, ty := range m {
		v, found := ctx.VarName(yn)
		if !found {
			return bad("substitution binds an unknown variable %q", yn)
		}
		sigma[v] = ctx.From(ty)
	}
	botFree := !X.HasKind(model.TBot) && !Y.HasKind(model.TBot)
	succ := r != nil
	if succ {
		classes = append(classes, "unify-ok")
		if v, cyc := substCyclic(sigma); cyc {
			return bad("substitution binds %s to a type containing itself: %v (x=%s y=%s)", v, fmtSubst(sigma), X, Y)
		}
		A, B := X.Subst(sigma), Y.Subst(sigma)
		R := ctx.From(r).Subst(sigma)
		// the type Unify hands back is a type like any other: equal, in both orientations, to a
		// freshly built type of the same structure, and unifiable with it
		fresh := ctx.Fork().To(ctx.From(r))
		if e1, p1 := guardEquals(r, fresh); p1 != nil || !e1 {
			return bad("the type returned by Unify, %s, is not equal to a freshly built type of the same structure (Equals(result, fresh)=%v panic=%v; x=%s y=%s)", ctx.From(r).OrderString(), e1, p1, X.OrderString(), Y.OrderString())
		}
		if e2, p2 := guardEquals(fresh, r); p2 != nil || !e2 {
			return bad("a freshly built type of the same structure is not equal to the type returned by Unify, %s (Equals(fresh, result)=%v panic=%v; x=%s y=%s)", ctx.From(r).OrderString(), e2, p2, X.OrderString(), Y.OrderString())
		}
		if !ctx.From(r).HasKind(model.TBot) {
			if r3, p3 := guardUnify(fresh, r, map[string]*types.Type{}); p3 != nil || r3 == nil {
				return bad("a freshly built type does not unify with the structurally identical type returned by Unify, %s (panic=%v; x=%s y=%s)", ctx.From(r).OrderString(), p3, X.OrderString(), Y.OrderString())
			}
		}
		if botFree {
			if !model.Equal(A, B) {
				return bad("Unify succeeded but σx=%s ≠ σy=%s, σ=%v (x=%s y=%s)", A, B, fmtSubst(sigma), X, Y)
			}
			if !model.Equal(R, A) {
				return bad("Unify result %s (after σ) differs from σx=%s", R, A)
			}
		} else if !X.HasKind(model.TBot) && Y.Ground() {
			// ⊥ only on the right: result is the left type, right is covered by it
			if !covers(A, Y) {
				return bad("Unify succeeded but σx=%s does not cover y=%s", A, Y)
			}
			if !model.Equal(R, A) {
				return bad("Unify result %s differs from σx=%s with ⊥ on the right", R, A)
			}
		}
	} else {
		classes = append(classes, "unify-fail")
	}
	if leftBotClash(X, Y) {
		classes = append(classes, "bot-left-clash")
		if succ {
			return bad("⊥ on the left unified with a concrete type: x=%s y=%s", X, Y)
		}
	}
	if X.K == model.TVar && Y.K != model.TVar && Y.Occurs(X.N) {
		classes = append(classes, "occurs")
		nontrivial = true
		if succ {
			return bad("Unify(%s, %s) succeeded despite the occurs check", X, Y)
		}
	}
	// pattern against a variable-free type: success iff an instantiation exists
	if Y.Ground() && !X.HasKind(model.TBot) && botInsideFun(Y, false) {
		// No caller produces ⊥ inside a function type (declared signatures and
		// function values never contain it), and there yae substitutes bound
		// variables before applying the ⊥ rule, which the first-meet reading of
		// "an instantiation exists" does not describe: the exactly-when clause is
		// not applied; the soundness clauses above were.
		classes = append(classes, "bot-inside-function-type:exactly-when-not-applied")
	} else if Y.Ground() && !X.HasKind(model.TBot) {
		wantM := refMatch(X, Y, map[string]*model.Type{})
		classes = append(classes, fmt.Sprintf("pattern-vs-ground:%v", wantM))
		if succ != wantM {
			return bad("pattern %s against %s: Unify success=%v, instantiation exists=%v", X, Y, succ, wantM)
		}
		if !X.Ground() && !Y.HasKind(model.TBot) {
			// the other orientation must agree when no ⊥ is involved
			m2 := map[string]*types.Type{}
			r2, pn2 := guardUnify(y, x, m2)
			if pn2 != nil {
				// as above: where no instantiation exists, the map constructor's refusal of a
				// non-primitive key is a way of not succeeding
				if !wantM && strings.Contains(fmt.Sprint(pn2), "invalid type of map's key") {
					classes = append(classes, "key-refusal-without-instantiation")
					r2 = nil
				} else {
					return bad("Unify(y,x) panicked: %v", pn2)
				}
			}
			if (r2 != nil) != wantM {
				return bad("ground %s against pattern %s: Unify success=%v, instantiation exists=%v", Y, X, r2 != nil, wantM)
			}
		}
		if hasRepeatedVarInContainer(X) {
			nontrivial = true
			classes = append(classes, "repeated-var-in-container")
		}
	}
	if hasRepeatedVarInContainer(model.Tuple(X, Y)) {
		nontrivial = true
	}
	if Y.HasKind(model.TBot) {
		classes = append(classes, "bot-right")
	}
	return ok(nontrivial, classes...)
}

func fmtSubst(s map[string]*model.Type) string {
	ks := make([]string, 0, len(s))
	for k := range s {
		ks = append(ks, k)
	}
	sort.Strings(ks)
	out := "{"
	for _, k := range ks {
		out += k + "↦" + s[k].String() + " "
	}
	return out + "}"
}

// instantiate replaces the variables of p by drawn variable-free types.
func instantiate(t *rapid.T, p *model.Type, o gen.TypeOpt) *model.Type {
	s := map[string]*model.Type{}
	keyVars := p.KeyVars()
	for _, v := range p.FreeVars() {
		if keyVars[v] {
			s[v] = gen.Prim(t)
		} else {
			s[v] = gen.Type(t, o)
		}
	}
	return p.Subst1(s)
}

// weaken replaces some list element types by ⊥ and some map types by map[⊥,⊥]
// (what an empty literal contributes): the result is covered by ty.
func weaken(t *rapid.T, ty *model.Type) *model.Type {
	switch ty.K {
	case model.TList:
		if rapid.Bool().Draw(t, "bot-el") {
			return model.List(model.Bot)
		}
		return model.List(weaken(t, ty.El()))
	case model.TMap:
		if rapid.Bool().Draw(t, "bot-map") {
			return model.Map(model.Bot, model.Bot)
		}
		return model.Map(ty.Key(), weaken(t, ty.Val()))
	case model.TMaybe:
		return model.Maybe(weaken(t, ty.El()))
	case model.TObj:
		fs := make([]model.Field, len(ty.F))
		for i, f := range ty.F {
			fs[i] = model.Field{Name: f.Name, T: weaken(t, f.T)}
		}
		return model.Obj(fs...)
	}
	return ty
}

// instantiateVarying is instantiate, except that every single occurrence of a
// variable independently receives either the variable's instance or a
// ⊥-weakening of it: the occurrences of one variable then meet types that
// unify pairwise by the ⊥ rule without being equal.
func instantiateVarying(t *rapid.T, p *model.Type, o gen.TypeOpt) *model.Type {
	s := map[string]*model.Type{}
	keyVars := p.KeyVars()
	for _, v := range p.FreeVars() {
		if keyVars[v] {
			s[v] = gen.Prim(t)
		} else {
			s[v] = gen.Type(t, o)
		}
	}
	var rb func(x *model.Type) *model.Type
	rb = func(x *model.Type) *model.Type {
		if x.K == model.TVar {
			if in, okk := s[x.N]; okk {
				if !keyVars[x.N] && rapid.Bool().Draw(t, "weaken-occurrence") {
					return weaken(t, in)
				}
				return in
			}
			return x
		}
		c := *x
		if len(x.A) > 0 {
			c.A = make([]*model.Type, len(x.A))
			for i, a := range x.A {
				c.A[i] = rb(a)
			}
		}
		if len(x.F) > 0 {
			c.F = make([]model.Field, len(x.F))
			for i, f := range x.F {
				c.F[i] = model.Field{Name: f.Name, T: rb(f.T)}
			}
		}
		return &c
	}
	return rb(p)
}

func genUnifyCase(t *rapid.T) *UnifyCase {
	depth := 3
	if Tier == "thorough" {
		depth = 4
	}
	pat := gen.TypeOpt{Depth: depth, Vars: 3, Fun: true, Maybe: true}
	ground := gen.TypeOpt{Depth: 2, Maybe: true, Fun: false}
	groundBot := gen.TypeOpt{Depth: 2, Maybe: true, Bot: true}
	c := &UnifyCase{Share: rapid.IntRange(0, 2).Draw(t, "share") == 0}
	c.ShareAcross = c.Share && rapid.Bool().Draw(t, "shareAcross")
	c.Arena = rapid.IntRange(0, 2).Draw(t, "arena") == 0
	tuple := func(n int, o gen.TypeOpt) *model.Type {
		xs := make([]*model.Type, n)
		for i := range xs {
			xs[i] = gen.Type(t, o)
		}
		return model.Tuple(xs...)
	}
	switch rapid.IntRange(0, 7).Draw(t, "mode") {
	case 7: // a system of equations over one pool of variables: chains, aliases, cycles through k bindings
		names := []string{"a", "b", "c", "d", "e"}
		k := rapid.IntRange(2, 5).Draw(t, "k")
		perm := append([]string(nil), names[:k]...)
		for i := k - 1; i > 0; i-- {
			j := rapid.IntRange(0, i).Draw(t, "perm")
			perm[i], perm[j] = perm[j], perm[i]
		}
		wrap := func(v *model.Type) *model.Type {
			switch rapid.IntRange(0, 7).Draw(t, "wrap") {
			case 0:
				return v // alias
			case 1:
				return model.List(v)
			case 2:
				return model.Maybe(v)
			case 3:
				return model.Map(model.Str, v)
			case 4:
				if rapid.Bool().Draw(t, "varfirst") {
					// the variable in a field that is not the last one declared
					return model.Obj(model.Field{Name: "p", T: v}, model.Field{Name: "q", T: model.Num})
				}
				return model.Obj(model.Field{Name: "p", T: model.Num}, model.Field{Name: "q", T: v})
			case 5:
				return model.Fun("f", []*model.Type{v}, model.Num)
			case 6:
				return model.Fun("f", []*model.Type{model.Str}, model.List(v))
			default:
				return model.List(model.List(v))
			}
		}
		closed := rapid.IntRange(0, 2).Draw(t, "closed") > 0
		xs, ys := make([]*model.Type, k), make([]*model.Type, k)
		for i := 0; i < k; i++ {
			xs[i] = model.Var(perm[i])
			switch {
			case i+1 < k:
				ys[i] = wrap(model.Var(perm[i+1]))
			case closed:
				ys[i] = wrap(model.Var(perm[rapid.IntRange(0, k-1).Draw(t, "back")]))
			default:
				ys[i] = wrap(gen.Prim(t))
			}
			if rapid.IntRange(0, 3).Draw(t, "flip") == 0 {
				xs[i], ys[i] = ys[i], xs[i]
			}
		}
		// the order in which the equations are met decides which bindings are recorded first
		for i := k - 1; i > 0; i-- {
			j := rapid.IntRange(0, i).Draw(t, "order")
			xs[i], xs[j] = xs[j], xs[i]
			ys[i], ys[j] = ys[j], ys[i]
		}
		c.X, c.Y = model.Tuple(xs...), model.Tuple(ys...)
	case 0: // equality laws on related types
		c.X = gen.Type(t, pat)
		switch rapid.IntRange(0, 2).Draw(t, "rel") {
		case 0:
			c.Y = gen.PermuteType(t, c.X)
		case 1:
			c.Y = gen.Mutate(t, c.X, pat)
		default:
			c.Y = gen.Type(t, pat)
		}
		if rapid.Bool().Draw(t, "z") {
			c.Z = gen.PermuteType(t, c.Y)
		} else {
			c.Z = gen.Mutate(t, c.Y, pat)
		}
	case 1, 2: // pattern against a ground instantiation (consistent or not)
		n := rapid.IntRange(1, 3).Draw(t, "arity")
		c.X = tuple(n, pat)
		bot := rapid.IntRange(0, 3).Draw(t, "withbot") == 0
		o := ground
		if bot {
			o = groundBot
		}
		if bot && rapid.Bool().Draw(t, "varying") {
			// a container-heavy instance weakened per occurrence
			c.Y = gen.PermuteType(t, instantiateVarying(t, c.X, gen.TypeOpt{Depth: 2, Maybe: true}))
		} else {
			c.Y = gen.PermuteType(t, instantiate(t, c.X, o))
		}
		if rapid.IntRange(0, 2).Draw(t, "break") == 0 {
			// break one argument
			i := rapid.IntRange(0, n-1).Draw(t, "bi")
			ys := append([]*model.Type(nil), c.Y.A...)
			ys[i] = gen.Mutate(t, ys[i], o)
			c.Y = model.Tuple(ys...)
		}
		if rapid.IntRange(0, 7).Draw(t, "arity-break") == 0 {
			// lists of different lengths, the empty one included: the pattern keeps a prefix of its
			// components (0..n-1), bare or as the parameter list of a function type on both sides
			k := rapid.IntRange(0, n-1).Draw(t, "keep")
			xs := append([]*model.Type(nil), c.X.A[:k]...)
			if rapid.Bool().Draw(t, "arity-swap") {
				c.X, c.Y = model.Tuple(xs...), model.Tuple(c.Y.A...)
			} else {
				c.Y = model.Tuple(c.Y.A[:k]...) // the instance is the shorter one
			}
			if rapid.Bool().Draw(t, "arity-in-fun") {
				c.X, c.Y = model.Tuple(model.Fun("f", c.X.A, model.Num)), model.Tuple(model.Fun("f", c.Y.A, model.Num))
			}
		}
	case 3: // two-sided unification of related patterns
		c.X = gen.Type(t, pat)
		s := map[string]*model.Type{}
		kv := c.X.KeyVars()
		for _, v := range c.X.FreeVars() {
			if rapid.Bool().Draw(t, "sub") {
				if kv[v] {
					s[v] = gen.Prim(t)
				} else {
					s[v] = gen.Type(t, gen.TypeOpt{Depth: 2, Vars: 3, Maybe: true})
				}
			}
		}
		c.Y = gen.PermuteType(t, c.X.Subst1(s))
		if rapid.IntRange(0, 3).Draw(t, "mut") == 0 {
			c.Y = gen.Mutate(t, c.Y, pat)
		}
	case 4: // occurs check
		v := model.Var("a")
		c.X = v
		inner := gen.Type(t, gen.TypeOpt{Depth: 2, Vars: 1, Maybe: true})
		switch rapid.IntRange(0, 3).Draw(t, "wrap") {
		case 0:
			c.Y = model.List(v)
		case 1:
			c.Y = model.Map(model.Str, model.List(v))
		case 2:
			c.Y = model.Obj(model.Field{Name: "a", T: inner}, model.Field{Name: "b", T: model.Maybe(v)})
		default:
			c.Y = model.Fun("f", []*model.Type{inner}, model.List(v))
		}
	case 5: // ⊥ on the left
		c.X = gen.Type(t, groundBot)
		c.Y = gen.Type(t, gen.TypeOpt{Depth: 2, Vars: 1, Maybe: true})
		if rapid.Bool().Draw(t, "rel") {
			c.Y = c.X.Clone()
		}
	default: // unrelated
		c.X = gen.Type(t, pat)
		c.Y = gen.Type(t, pat)
	}
	c.X, c.Y = c.X.FixKeys(), c.Y.FixKeys()
	if c.Z != nil {
		c.Z = c.Z.FixKeys()
	}
	return c
}

var c17 = Register(&Prop[UnifyCase]{ID: "C17", Name: "unify-laws", Gen: genUnifyCase, Check: checkUnify})

// enumTypes: all types of depth ≤ 2, width ≤ 2 over {num,str,'a,'b} (+⊥ containers).
func enumTypes(withBot bool) []*model.Type {
	atoms := []*model.Type{model.Num, model.Str, model.Var("a"), model.Var("b")}
	out := append([]*model.Type(nil), atoms...)
	for _, x := range atoms {
		out = append(out, model.List(x), model.Maybe(x), model.Obj(model.Field{Name: "p", T: x}))
		for _, k := range []*model.Type{model.Num, model.Str, model.Var("a")} {
			out = append(out, model.Map(k, x))
		}
		for _, y := range atoms {
			out = append(out,
				model.Obj(model.Field{Name: "p", T: x}, model.Field{Name: "q", T: y}),
				model.Obj(model.Field{Name: "q", T: y}, model.Field{Name: "p", T: x}),
				model.Fun("f", []*model.Type{x}, y),
				model.Tuple(x, y))
		}
	}
	if withBot {
		out = append(out, model.List(model.Bot), model.Map(model.Bot, model.Bot), model.Maybe(model.List(model.Bot)))
	}
	return out
}

// the checker-level face of "the empty-container element type unifies only where the rules allow
// it": programs in which an expression of that type (an empty literal, [][0], [:][k]) stands where
// another type is required - operands, keys, elements, arguments of named and of function-VALUE
// callees; yae's checker must decide as the typing rules do (C05's oracle)
var c17bot = Register(&Prop[TypingCase]{ID: "C17", Name: "empty-container-rules-in-the-checker", Gen: genBottomTypingCase, Check: checkC05})

func TestC17(t *testing.T) {
	R.Rule = "pairs (x,y[,z]) of types over num/str/bool/time, variables a,b,c (repeated), list, map, object (permuted field orders), optional, function, argument tuple outermost; built both with fresh nodes and with shared sub-terms, parameter / tuple element lists also carved consecutively from one backing array (spare capacity = the next list), the types read back unchanged after Equals and Equals asked twice; the type returned by a successful Unify is equal in both orientations to, and unifiable with, a freshly built type of the same structure; one pattern-against-instance pair in eight has component lists of different lengths (the empty list included), bare or as parameter lists of function types; exhaustive over all types of depth<=2/width<=2 over {num,str,'a,'b}; systems of 2-5 equations over one variable pool (chains, aliases, cycles closed through k bindings, either side, every meeting order), exhaustively for 3 variables with right sides among {a,b,c,list[a],list[b],list[c],num,{p:a,q:num},{p:b,q:num},{p:c,q:num}}; plus generated programs mutated so that an expression of the empty-container element type stands where another type is required (operands, keys, elements, arguments of named callees and of function values), decided by yae's checker as by the reference typing rules; non-trivial = repeated variable inside a container, or model-equal types with different field order, or an occurs-check pair, or shared sub-terms of depth>1"
	R.Assume = []string{"model.Equal / refMatch (harness) define structural identity and instantiation", "⊥ only generated as container element; ⊤ not generated"}
	reportKnown(t, "C17")
	runRegress(t, "C17")
	// exhaustive small scope
	X := enumTypes(true)
	Yt := enumTypes(true)
	c17.Each(t, "depth2-width2", func(yield func(*UnifyCase) bool) {
		for _, share := range []int{0, 1, 2} {
			for _, x := range X {
				for _, y := range Yt {
					// argument tuples only ever meet argument tuples (as in the checker)
					if (x.K == model.TTuple) != (y.K == model.TTuple) {
						continue
					}
					if !yield(&UnifyCase{X: x, Y: y, Share: share > 0, ShareAcross: share == 2}) {
						return
					}
					if share == 0 && (x.HasKind(model.TFun) || x.K == model.TTuple) {
						if !yield(&UnifyCase{X: x, Y: y, Arena: true}) {
							return
						}
					}
				}
			}
		}
	})
	// systems of three equations over the variables a, b, c: every choice of right-hand sides
	// among {a, b, c, list[a], list[b], list[c], num} in every order of the equations
	objOf := func(v string) *model.Type {
		return model.Obj(model.Field{Name: "p", T: model.Var(v)}, model.Field{Name: "q", T: model.Num})
	}
	rhs := []*model.Type{model.Var("a"), model.Var("b"), model.Var("c"), model.List(model.Var("a")), model.List(model.Var("b")), model.List(model.Var("c")), model.Num,
		objOf("a"), objOf("b"), objOf("c")}
	c17.Each(t, "systems-of-3", func(yield func(*UnifyCase) bool) {
		vars := []*model.Type{model.Var("a"), model.Var("b"), model.Var("c")}
		orders := [][]int{{0, 1, 2}, {0, 2, 1}, {1, 0, 2}, {1, 2, 0}, {2, 0, 1}, {2, 1, 0}}
		for _, ra := range rhs {
			for _, rb := range rhs {
				for _, rc := range rhs {
					r := []*model.Type{ra, rb, rc}
					for _, o := range orders {
						x := model.Tuple(vars[o[0]], vars[o[1]], vars[o[2]])
						y := model.Tuple(r[o[0]], r[o[1]], r[o[2]])
						if !yield(&UnifyCase{X: x, Y: y}) {
							return
						}
					}
				}
			}
		}
	})
	if Tier == "thorough" {
		// one level deeper on the left: wrap every depth-2 type once more
		var X3 []*model.Type
		for _, x := range enumTypes(false) {
			if x.K == model.TTuple {
				continue
			}
			X3 = append(X3, model.List(x), model.Obj(model.Field{Name: "p", T: x}, model.Field{Name: "q", T: model.Var("a")}))
		}
		c17.Each(t, "depth3-left", func(yield func(*UnifyCase) bool) {
			for _, x := range X3 {
				for _, y := range X3 {
					if !yield(&UnifyCase{X: x, Y: y}) {
						return
					}
				}
			}
		})
	}
	c17.Run(t, budget(40000, 1600000))
	c17bot.Run(t, budget(3000, 150000))
}
