package props

import (
	"fmt"
	"math"

	"verif/gen"
	m "verif/model"
	"verif/ref"
	"verif/run"
)

// C04 part (a): every built-in applied to every tuple of boundary values.

type OpCase struct {
	Sig  int      `json:"sig"`  // index into ref.BuiltIns
	Name string   `json:"name"` // informational
	Args []*m.Val `json:"args"`
	Lits bool     `json:"lits,omitempty"` // operands written as literals instead of variables
}

var symbolic = map[string]bool{"+": true, "-": true, "*": true, "/": true, "%": true, "^": true, "==": true, "!=": true,
	"<": true, "<=": true, ">": true, ">=": true, "&&": true, "||": true, "!": true}

func opExpr(name string, args []*m.Expr) *m.Expr {
	if symbolic[name] {
		if len(args) == 1 {
			return m.Prefix(name, args[0])
		}
		return m.Infix(name, args[0], args[1])
	}
	return m.Call(name, args...)
}

func opProg(c *OpCase) *ProgCase {
	f := ref.BuiltIns[c.Sig]
	pc := &ProgCase{Env: map[string]*m.Type{}, Vals: map[string]*m.Val{}}
	args := make([]*m.Expr, len(c.Args))
	for i, v := range c.Args {
		var e *m.Expr
		if c.Lits {
			e = gen.LitOf(v)
		}
		if e == nil {
			n := fmt.Sprintf("x%d", i)
			pc.Env[n] = v.T
			pc.Vals[n] = v
			e = m.V(n)
		}
		args[i] = e
	}
	pc.E = gen.Parenthesize(opExpr(f.Name, args))
	return pc
}

func checkOp(c *OpCase) *Outcome {
	if c.Sig < 0 || c.Sig >= len(ref.BuiltIns) {
		return skip("bad-sig")
	}
	pc := opProg(c)
	r := refRun(pc)
	if r.RefErr != nil {
		return &Outcome{Err: fmt.Errorf("harness: enumerated application rejected by the reference: %v (%s)", r.RefErr, r.Src)}
	}
	if s := domainSkip(r); s != "" {
		return skip(s)
	}
	if s := knownFamilySkip(r); s != "" {
		return skip(s)
	}
	runBackends(pc, r, []run.Backend{run.VMSwitch, run.Closure})
	if err := compareWithRef(pc, r); err != nil {
		return &Outcome{Err: err}
	}
	classes, boundary := boundaryClasses(pc, r)
	classes = append(classes, "op:"+ref.BuiltIns[c.Sig].Impl)
	return ok(boundary, classes...)
}

var c04ops = Register(&Prop[OpCase]{ID: "C04", Name: "builtin-applications", Check: checkOp})

// ---- pools

func numPool(thorough bool) []*m.Val {
	xs := []float64{0, math.Copysign(0, -1), 1, -1, 2, 3, 0.5, -0.5, 2.5, -2.5, 1.5, 7, -7, 10, 0.1,
		1e-9, 1e-10, 5e-10, 2e-9, 1 + 1e-9, 1 + 5e-10, 1 + 2e-9, 1 - 5e-10, 1 - 2e-9,
		9007199254740992, 9007199254740993, 9007199254740994, 9223372036854775808, 9223372036854777856, -9223372036854775808,
		1e19, 1e20, 1.797e308, 5e-324, math.NaN(), math.Inf(1), math.Inf(-1)}
	if thorough {
		xs = append(xs, gen.NumPool...)
		xs = append(xs, 3.5, -3.5, 4.5, 0.49999999999999994, 4503599627370497.5, 1e-9+1e-25, 99, 100, 1e15+0.5)
	}
	seen := map[uint64]bool{}
	var out []*m.Val
	for _, x := range xs {
		b := math.Float64bits(x)
		if x != x {
			b = 1
		}
		if !seen[b] {
			seen[b] = true
			out = append(out, m.VNum(x))
		}
	}
	return out
}

func strPool(thorough bool) []*m.Val {
	ss := []string{"", "a", "b", "ab", "A", "é", "日本語", "😀", "a\"b", "x\ny", " ", "(", "[a-z]+", "^a", "a*", "\\d",
		// Go strings a host may hand over that are not well-formed UTF-8: a text cut in the middle
		// of a character (tail / head missing), a stray continuation byte, a lone lead byte, an
		// encoded surrogate - every invalid byte counts as one character
		"日本語"[:5], "日本語"[1:], "a\x80b", "caf\xe9", "\xed\xa0\x80"}
	if thorough {
		ss = append(ss, gen.StrPool...)
	}
	seen := map[string]bool{}
	var out []*m.Val
	for _, s := range ss {
		if !seen[s] {
			seen[s] = true
			out = append(out, m.VStr(s))
		}
	}
	return out
}

func timePool() []*m.Val {
	var out []*m.Val
	for _, u := range []int64{0, 1, 86400, 1577934245, 1577934246, 2147483648, 4102444799} {
		out = append(out, m.VTime(m.TimeV{Unix: u, Zone: "Local"}))
	}
	// the same instants held as UTC (another Go representation of an equal time), one with
	// a sub-second part, and instants centuries away
	out = append(out, m.VTime(m.TimeV{Unix: 0, Zone: ""}), m.VTime(m.TimeV{Unix: 1577934245, Zone: ""}), m.VTime(m.TimeV{Unix: 1577934245, Nano: 500000000, Zone: ""}),
		m.VTime(m.TimeV{Unix: -62104060800, Zone: "Local"}), m.VTime(m.TimeV{Unix: 253370764800, Zone: ""}))
	return out
}

func boolPool() []*m.Val { return []*m.Val{m.VBool(true), m.VBool(false)} }

func listPool(el *m.Type, elems []*m.Val, max int) []*m.Val {
	out := []*m.Val{{T: m.List(el)}}
	step := 1
	if len(elems) > max {
		step = len(elems) / max
	}
	var sel []*m.Val
	for i := 0; i < len(elems); i += step {
		sel = append(sel, elems[i])
	}
	for i, x := range sel {
		out = append(out, &m.Val{T: m.List(el), L: []*m.Val{x}})
		y := sel[(i+1)%len(sel)]
		z := sel[(i+3)%len(sel)]
		out = append(out, &m.Val{T: m.List(el), L: []*m.Val{x, y}})
		if i%2 == 0 {
			out = append(out, &m.Val{T: m.List(el), L: []*m.Val{x, y, x, z}})
		}
	}
	return out
}

func mapPool(kt, vt *m.Type, keys, vals []*m.Val) []*m.Val {
	out := []*m.Val{{T: m.Map(kt, vt)}}
	for i := 0; i < len(keys) && i < 6; i++ {
		mv := &m.Val{T: m.Map(kt, vt)}
		for j := 0; j <= i && j < 3; j++ {
			mv.MapPut(keys[(i+j*2)%len(keys)], vals[(i+j)%len(vals)])
		}
		out = append(out, mv)
	}
	return out
}

type pools struct {
	num, str, tm, bl []*m.Val
	thorough         bool
}

// poolsFor: candidate argument lists for a signature; type variables are
// instantiated with num and str (and bool for bare variables).
func (p *pools) forType(t *m.Type, inst map[string]*m.Type) []*m.Val {
	switch t.K {
	case m.TNum:
		return p.num
	case m.TStr:
		return p.str
	case m.TBool:
		return p.bl
	case m.TTime:
		return p.tm
	case m.TVar:
		return p.forType(inst[t.N], inst)
	case m.TList:
		el := t.El()
		if el.K == m.TVar {
			el = inst[el.N]
		}
		return listPool(el, p.forType(el, inst), 5)
	case m.TMaybe:
		el := t.El()
		if el.K == m.TVar {
			el = inst[el.N]
		}
		out := []*m.Val{m.VNothing(el)}
		for i, x := range p.forType(el, inst) {
			if i%4 == 0 {
				out = append(out, m.VJust(el, x))
			}
		}
		return out
	case m.TMap:
		kt, vt := t.Key(), t.Val()
		if kt.K == m.TVar {
			kt = inst[kt.N]
		}
		if vt.K == m.TVar {
			vt = inst[vt.N]
		}
		return mapPool(kt, vt, p.forType(kt, inst), p.forType(vt, inst))
	}
	return nil
}

func eachOpCase(thorough bool, maxPerSig int) func(yield func(*OpCase) bool) {
	p := &pools{num: numPool(thorough), str: strPool(thorough), tm: timePool(), bl: boolPool(), thorough: thorough}
	insts := []map[string]*m.Type{
		{"a": m.Num, "k": m.Str, "v": m.Num},
		{"a": m.Str, "k": m.Num, "v": m.Str},
	}
	return func(yield func(*OpCase) bool) {
		for si, f := range ref.BuiltIns {
			nInst := 1
			if !f.Mono() {
				nInst = len(insts)
			}
			for ii := 0; ii < nInst; ii++ {
				inst := insts[ii]
				cands := make([][]*m.Val, len(f.Params))
				total := 1
				for i, pt := range f.Params {
					cands[i] = p.forType(pt, inst)
					total *= len(cands[i])
				}
				stride := 1
				if total > maxPerSig {
					stride = total/maxPerSig + 1
					for gcd(stride, total) != 1 {
						stride++
					}
				}
				for n, idx := 0, 0; n < total && n < maxPerSig; n, idx = n+1, (idx+stride)%total {
					args := make([]*m.Val, len(cands))
					k := idx
					for i := range cands {
						args[i] = cands[i][k%len(cands[i])]
						k /= len(cands[i])
					}
					for _, lits := range []bool{false, true} {
						if lits && n%3 != 0 {
							continue
						}
						if !yield(&OpCase{Sig: si, Name: f.Impl, Args: args, Lits: lits}) {
							return
						}
					}
				}
			}
		}
	}
}

func gcd(a, b int) int {
	for b != 0 {
		a, b = b, a%b
	}
	return a
}
