package props

import (
	"fmt"
	"testing"

	"verif/gen"
	"verif/run"
)

// C02 — progress: accepted programs fail only through documented partial operations.

func checkProgress(c *ProgCase, r *CaseRun) error {
	for _, b := range r.Runs {
		o := b.O
		if !o.Compiled() {
			return fmt.Errorf("%s does not compile an accepted program: %s\n src: %s", o.Be, describeOutcome(b), clip(r.Src))
		}
		if r.RefFail == nil {
			if o.Failed() {
				return fmt.Errorf("%s: the semantics define a value (%s) but evaluation stopped: %s\n src: %s\n env: %s", o.Be, r.RefVal.Render(), describeOutcome(b), clip(r.Src), envSummary(c))
			}
			continue
		}
		if !o.Failed() {
			return fmt.Errorf("%s: the operation is undefined (%s) but evaluation went on and produced %s\n src: %s\n env: %s", o.Be, r.RefFail, describeOutcome(b), clip(r.Src), envSummary(c))
		}
		if why := internalFault(o.FailText()); why != "" {
			return fmt.Errorf("%s: stopped through an internal fault (%s) instead of the partial operation's failure (%s): %s\n src: %s\n env: %s", o.Be, why, r.RefFail.Kind, o.FailText(), clip(r.Src), envSummary(c))
		}
	}
	return nil
}

func checkC02(c *ProgCase) *Outcome {
	r := refRun(c)
	if s := domainSkip(r); s != "" {
		return skip(s)
	}
	runBackends(c, r, run.AllBackends)
	for _, b := range r.Runs {
		if b.O.Be == run.VMCall && b.O.Failed() && b.O.FailText() == "over exec limit" && excludedFamily("callthread-exec-limit") {
			return skip("known:callthread-exec-limit")
		}
	}
	if err := checkProgress(c, r); err != nil {
		return &Outcome{Err: err}
	}
	var classes []string
	partial := false
	for _, k := range []string{"free-index", "free-key", "get-list", "get-map", "get-maybe", "match", "index-list", "index-map", "poison", "guarded-partial"} {
		if c.Stats[k] > 0 {
			classes = append(classes, "uses:"+k)
			partial = true
		}
	}
	if r.RefFail != nil {
		classes = append(classes, "fails:"+r.RefFail.Kind)
	} else {
		classes = append(classes, "value")
	}
	return ok(partial, classes...)
}

func checkC02Stress(s *StressCase) *Outcome {
	c := stressProg(s)
	r := refRun(c)
	if r.RefErr != nil {
		return bad("harness: stress program rejected by the reference: %v", r.RefErr)
	}
	if s.N > astModeFrom {
		runBackendsAST(c, r, run.AllBackends)
	} else {
		runBackends(c, r, run.AllBackends)
	}
	for _, b := range r.Runs {
		if b.O.Be == run.VMCall && b.O.Failed() && b.O.FailText() == "over exec limit" && excludedFamily("callthread-exec-limit") {
			return skip("known:callthread-exec-limit")
		}
	}
	if capacityExceeded(r.Core) {
		// the VM may refuse the program at compile time; the other back ends must still make progress
		var kept []*BackendRun
		for _, b := range r.Runs {
			if b.O.Compiled() || !(b.O.Be == run.VMSwitch || b.O.Be == run.VMCall) {
				kept = append(kept, b)
			}
		}
		r.Runs = kept
	}
	if err := checkProgress(c, r); err != nil {
		return &Outcome{Err: err}
	}
	return ok(true, "stress:"+s.Kind, fmt.Sprintf("stress-n:%d", s.N))
}

var c02opt = gen.ProgOpt{Fuel: 4, Partial: true, Sugar: false, NonFinite: true, Maybe: true, Times: true, Harness: true, Poison: true}

var c02 = Register(&Prop[ProgCase]{ID: "C02", Name: "progress", Gen: genProgCase(c02opt, run.StdHarness), Check: checkC02})
var c02stress = Register(&Prop[StressCase]{ID: "C02", Name: "stress", Check: checkC02Stress})

func TestC02(t *testing.T) {
	R.Rule = "well-typed programs with free indices / keys / divisors / patterns drawn from boundary pools (negative, fractional, huge, non-finite, missing, malformed), empty containers, deliberately failing operands, and stress classes exceeding 42 stack slots and 8-bit operand ranges; four back ends; oracle: the reference evaluator predicts value or failure(kind); predicted value => no back end stops; predicted failure => every back end stops and not through an internal-fault signature; non-trivial = the program reaches a partial operation or a total-with-default call, or is a stress class"
	R.Assume = []string{"ref.Eval defines where operations are undefined (index = operand truncated toward zero, 0<=i<len; missing key; truncated divisor 0; pattern does not compile)"}
	reportKnown(t, "C02")
	runRegress(t, "C02")
	var big []int
	if Tier == "thorough" {
		big = []int{1000, 5000, 20000, 65535, 65536}
	}
	c02stress.Each(t, "stress-classes", eachStress(big))
	c02.Run(t, budget(8000, 400000))
}
