package props

import (
	"fmt"
	"github.com/goghcrow/yae/parser/ast"
	"reflect"
	"testing"

	"github.com/goghcrow/yae/compiler"
	"github.com/goghcrow/yae/trans"
	"github.com/goghcrow/yae/types"
	"github.com/goghcrow/yae/val"
	"pgregory.net/rapid"

	"verif/gen"
	m "verif/model"
	"verif/ref"
	"verif/run"
)

// C10 — syntactic sugar means exactly the call it stands for.

// ---- structural half

func sugarStats(e *m.Expr) (count int, nested bool, sugaredReceiver bool) {
	isSugar := func(x *m.Expr) bool {
		switch x.K {
		case "prefix", "postfix", "infix", "tern", "mcall", "group":
			return true
		}
		return false
	}
	var w func(x *m.Expr, under bool)
	w = func(x *m.Expr, under bool) {
		s := isSugar(x)
		if s {
			count++
			if under {
				nested = true
			}
		}
		if x.K == "mcall" && len(x.A) > 0 && isSugar(x.A[0]) {
			sugaredReceiver = true
		}
		for _, a := range x.A {
			w(a, under || s)
		}
	}
	w(e, false)
	return
}

func samePositions(a, b *m.Expr) bool {
	if a.Start != b.Start || a.End != b.End || a.Line != b.Line || a.Col != b.Col || len(a.A) != len(b.A) {
		return false
	}
	for i := range a.A {
		if !samePositions(a.A[i], b.A[i]) {
			return false
		}
	}
	return true
}

func checkDesugar(c *ParseCase) *Outcome {
	tree, p := run.YaeParse(c.Src, c.Ops)
	if p != nil {
		return skip("does-not-parse")
	}
	before := run.FromAst(tree)
	var out, out2 m.Expr
	pp := run.Guard(func() {
		d := trans.Desugar(tree)
		out = *run.FromAstCore(d)
		out2 = *run.FromAstCore(trans.Desugar(d))
	})
	if pp != nil {
		return bad("Desugar panicked on a parsed tree: %s (src %q)", pp.Text, c.Src)
	}
	after := run.FromAst(tree)
	desc := fmt.Sprintf("src %q parsed as %s", c.Src, before)
	if !m.SameTree(before, after) || !samePositions(before, after) {
		return bad("Desugar modified its input tree: before %s after %s (%s)", before, after, desc)
	}
	if !ref.IsCore(&out) {
		return bad("desugared tree still contains notation: %s (%s)", &out, desc)
	}
	want := ref.Desugar(before)
	if !m.SameTree(&out, want) {
		return bad("desugared to %s, the notation stands for %s (%s)", &out, want, desc)
	}
	if !m.SameTree(&out, &out2) {
		if hasMemberCallee(&out) && excludedFamily("desugar-twice-parenthesised-member-callee") {
			return skip("known:desugar-twice-parenthesised-member-callee")
		}
		return bad("desugaring twice changes the tree: %s then %s (%s)", &out, &out2, desc)
	}
	n, nested, recv := sugarStats(before)
	classes := []string{}
	if nested {
		classes = append(classes, "sugar-nested-in-sugar")
	}
	if recv {
		classes = append(classes, "sugared-receiver")
	}
	if c.Ops != nil {
		classes = append(classes, "custom-table")
	}
	return ok(n >= 2 && (nested || recv), classes...)
}

// hasMemberCallee: a dynamic call whose callee is a member access, (o.f)(x).
func hasMemberCallee(e *m.Expr) bool {
	found := false
	e.Walk(func(x *m.Expr) {
		if x.K == "dcall" && x.A[0].K == "member" {
			found = true
		}
	})
	return found
}

func genDesugarCase(t *rapid.T) *ParseCase {
	c := genParseCase(t)
	return c
}

var c10s = Register(&Prop[ParseCase]{ID: "C10", Name: "desugar-structure", Gen: genDesugarCase, Check: checkDesugar})

// ---- semantic half

// explicit rewrites ?: to if(...), method calls to plain calls and drops
// parentheses; operator applications stay (symbolic operators have no call
// syntax in source).
func explicit(e *m.Expr) *m.Expr {
	switch e.K {
	case "group":
		return explicit(e.A[0])
	case "tern":
		return m.Call("if", explicit(e.A[0]), explicit(e.A[1]), explicit(e.A[2]))
	case "mcall":
		args := make([]*m.Expr, len(e.A))
		for i, a := range e.A {
			args[i] = explicit(a)
		}
		return m.Call(e.Name, args...)
	}
	n := *e
	n.A = make([]*m.Expr, len(e.A))
	for i, a := range e.A {
		n.A[i] = explicit(a)
	}
	return &n
}

func sameOutcome(a, b *BackendRun) error {
	if a.O.Compiled() != b.O.Compiled() {
		return fmt.Errorf("one compiles, the other does not: %s / %s", describeOutcome(a), describeOutcome(b))
	}
	if !a.O.Compiled() {
		return nil
	}
	if a.O.Failed() != b.O.Failed() {
		return fmt.Errorf("%s / %s", describeOutcome(a), describeOutcome(b))
	}
	if !sameTrace(a.O.Trace, b.O.Trace) {
		return fmt.Errorf("effects differ: %s / %s", traceStr(a.O.Trace), traceStr(b.O.Trace))
	}
	if a.O.Failed() {
		return nil
	}
	if a.Val == nil || b.Val == nil || len(a.Probs)+len(b.Probs) > 0 {
		return fmt.Errorf("malformed value: %v / %v", a.Probs, b.Probs)
	}
	if !m.Identical(a.Val, b.Val) {
		return fmt.Errorf("values differ: %s / %s", a.Val.Render(), b.Val.Render())
	}
	return nil
}

func checkSugarSemantics(c *ProgCase) *Outcome {
	sug := m.Print(c.E, c.Print)
	exp := gen.Parenthesize(explicit(c.E))
	expSrc := m.Print(exp, m.PrintOpt{})
	core := ref.Desugar(c.E)
	// same inferred type
	t1, _, e1, p1 := run.InferType(sug, c.Env, c.Extra)
	t2, _, e2, p2 := run.InferType(expSrc, c.Env, c.Extra)
	if p1 != nil || p2 != nil {
		return bad("type checking panicked: %v %v", p1, p2)
	}
	if (e1 == nil) != (e2 == nil) || (e1 == nil && !m.Equal(t1, t2)) {
		return bad("sugared and explicit forms are typed differently: %v:%v vs %v:%v\n sugared:  %s\n explicit: %s", t1, e1, t2, e2, sug, expSrc)
	}
	if e1 != nil {
		return skip("harness:generated-program-rejected")
	}
	// the parsed tree handed to a whole compilation (desugar, check, code generation) is left as
	// it was parsed: compared, annotations and all, with a second parse of the same text
	for _, be := range []run.Backend{run.VMSwitch, run.Closure} {
		en0 := run.NewEngine(be, c.Extra)
		var parsed, again ast.Expr
		if p := run.Guard(func() { parsed = en0.E.Parse(sug); again = en0.E.Parse(sug) }); p != nil {
			return bad("parsing panicked: %s\n src: %s", p.Text, sug)
		}
		if !reflect.DeepEqual(parsed, again) {
			return skip("harness:two-parses-differ")
		}
		_ = run.Guard(func() { en0.E.CompileExpr(parsed, run.TypeEnv(c.Env)) })
		if !reflect.DeepEqual(parsed, again) {
			return bad("%s: compiling a parsed tree (Expr.CompileExpr) changed the tree it was given\n src: %s\n before: %#v\n after:  %#v", be, sug, again, parsed)
		}
	}
	for _, be := range run.AllBackends {
		en1 := run.NewEngine(be, c.Extra)
		o1 := en1.RunSrc(sug, c.Env, c.Vals)
		en2 := run.NewEngine(be, c.Extra)
		o2 := en2.RunSrc(expSrc, c.Env, c.Vals)
		b1, b2 := &BackendRun{O: o1}, &BackendRun{O: o2}
		if o1.Compiled() && !o1.Failed() {
			b1.Val, b1.Probs = run.FromYaeVal(o1.Val, t1)
		}
		if o2.Compiled() && !o2.Failed() {
			b2.Val, b2.Probs = run.FromYaeVal(o2.Val, t1)
		}
		if err := sameOutcome(b1, b2); err != nil {
			return bad("%s: sugared and explicit forms behave differently: %v\n sugared:  %s\n explicit: %s\n env: %s", be, err, sug, expSrc, envSummary(c))
		}
		// operators as explicit calls: op(x, y) built as a tree and compiled directly
		if (be == run.VMSwitch || be == run.Closure) && !(hasMemberCallee(core) && excludedFamily("desugar-twice-parenthesised-member-callee")) {
			en3 := run.NewEngine(be, c.Extra)
			o3 := &run.Outcome{Be: be}
			var cl compiler.Closure
			o3.CompilePan = run.Guard(func() { cl = en3.E.CompileExpr(run.ToAst(core), run.TypeEnv(c.Env)) })
			if o3.CompilePan != nil {
				o3.CompileErr = fmt.Errorf("%s", o3.CompilePan.Text)
				o3.CompilePan = nil
			} else {
				en3.Tr.Reset()
				ve := en3.ValEnv(c.Vals)
				o3.RunPan = run.Guard(func() { o3.Val = cl(ve) })
				o3.Trace = en3.Tr.Snapshot()
			}
			b3 := &BackendRun{O: o3}
			if o3.Compiled() && !o3.Failed() {
				b3.Val, b3.Probs = run.FromYaeVal(o3.Val, t1)
			}
			if err := sameOutcome(b1, b3); err != nil {
				return bad("%s: operator notation and the explicit call tree behave differently: %v\n sugared: %s\n call tree: %s\n env: %s", be, err, sug, core, envSummary(c))
			}
		}
	}
	n, nested, recv := sugarStats(c.E)
	classes := []string{}
	if nested {
		classes = append(classes, "sugar-nested-in-sugar")
	}
	if recv {
		classes = append(classes, "sugared-receiver")
	}
	for _, k := range []string{"ternary", "method-call", "redundant-parens"} {
		if c.Stats[k] > 0 {
			classes = append(classes, "uses:"+k)
		}
	}
	return ok(n >= 2 && (nested || recv), classes...)
}

var c10opt = gen.ProgOpt{Fuel: 4, Partial: true, Sugar: true, Maybe: true, Times: true, Harness: true, Poison: true}

var c10m = Register(&Prop[ProgCase]{ID: "C10", Name: "sugar-semantics", Gen: genProgCase(c10opt, run.StdHarness), Check: checkSugarSemantics})

// ---- operators a host registers itself, also AFTER the engine has been used: x op y and op x
// are the calls op(x, y) and op(x) of the function registered under the operator's name

type UserOpCase struct {
	ProgCase
	First string `json:"first"` // what the engine did before the operators were registered: none | parse | compile | compile-expr
}

var userOpTable = []struct {
	op  ref.Op
	sig ref.FunSig
}{
	{ref.Op{Name: "--", BP: 7, Fix: "infixl"}, ref.FunSig{Name: "--", Params: []*m.Type{m.Num, m.Num}, Ret: m.Num, Impl: "hsub"}},
	{ref.Op{Name: "<+>", BP: 8, Fix: "infixr"}, ref.FunSig{Name: "<+>", Params: []*m.Type{m.Num, m.Num}, Ret: m.Num, Impl: "hsub"}},
	{ref.Op{Name: "minus", BP: 7, Fix: "infixl"}, ref.FunSig{Name: "minus", Params: []*m.Type{m.Num, m.Num}, Ret: m.Num, Impl: "hsub"}},
	{ref.Op{Name: "~", BP: 10, Fix: "prefix"}, ref.FunSig{Name: "~", Params: []*m.Type{m.Num}, Ret: m.Num, Impl: "hpost"}},
	{ref.Op{Name: "succ", BP: 10, Fix: "prefix"}, ref.FunSig{Name: "succ", Params: []*m.Type{m.Num}, Ret: m.Num, Impl: "hpost"}},
	{ref.Op{Name: "!!", BP: 12.5, Fix: "postfix"}, run.SigPost},
}

func genUserOpCase(t *rapid.T) *UserOpCase {
	o := c10opt
	g := gen.NewG(t, o)
	num := func() *m.Expr { return g.Expr(m.Num) }
	used := map[int]bool{}
	var apply func(depth int) *m.Expr
	apply = func(depth int) *m.Expr {
		operand := num
		if depth > 0 && rapid.IntRange(0, 2).Draw(t, "nestop") == 0 {
			operand = func() *m.Expr { return apply(depth - 1) }
		}
		i := rapid.IntRange(0, len(userOpTable)-1).Draw(t, "userop")
		used[i] = true
		u := userOpTable[i]
		switch u.op.Fix {
		case "prefix":
			return m.Prefix(u.op.Name, operand())
		case "postfix":
			return m.Postfix(u.op.Name, operand())
		}
		return m.Infix(u.op.Name, operand(), operand())
	}
	var e *m.Expr
	switch rapid.IntRange(0, 3).Draw(t, "useropform") {
	case 0:
		e = apply(2)
	case 1:
		e = m.Infix("+", apply(1), num())
	case 2:
		e = m.Call("max", num(), apply(1))
	default:
		e = m.Call("if", m.Infix("<", apply(1), num()), apply(1), num())
	}
	e = gen.Parenthesize(e)
	c := &UserOpCase{First: []string{"none", "parse", "compile", "compile-expr"}[rapid.IntRange(0, 3).Draw(t, "first")]}
	c.E, c.Env, c.Vals, c.Stats = e, g.Env, g.Vals, g.Stats
	c.Extra = append([]ref.FunSig(nil), run.StdHarness...)
	for i, u := range userOpTable {
		if used[i] {
			c.Ops = append(c.Ops, u.op)
			c.Extra = append(c.Extra, u.sig)
		}
	}
	return c
}

func checkUserOps(c *UserOpCase) *Outcome {
	pc := &c.ProgCase
	r := refRun(pc)
	if r.RefErr != nil {
		return skip("harness:reference-rejects-generated-program")
	}
	if s := domainSkip(r); s != "" {
		return skip(s)
	}
	nStd := len(run.StdHarness)
	for _, be := range []run.Backend{run.VMSwitch, run.Closure} {
		en := run.NewEngine(be, c.Extra[:nStd])
		// the engine is used before the host registers its operators
		first := run.Guard(func() {
			switch c.First {
			case "parse":
				en.E.Parse("1 + 1")
			case "compile":
				_, _ = en.E.Compile("1 + 1", nil)
			case "compile-expr":
				en.E.CompileExpr(en.E.Parse("1 + 1"), types.NewEnv())
			}
		})
		if first != nil {
			return bad("%s: using the engine (%s of 1 + 1) panicked: %s", be, c.First, first.Text)
		}
		en.E.RegisterOperator(run.YaeOps(c.Ops)...)
		for _, f := range c.Extra[nStd:] {
			en.E.RegisterFun(run.MakeHarnessFun(f, en.Tr))
		}
		o := en.RunSrc(r.Src, c.Env, c.Vals)
		b := &BackendRun{O: o}
		if o.Compiled() && !o.Failed() {
			b.Val, b.Probs = run.FromYaeVal(o.Val, r.RefType)
		}
		if !o.Compiled() {
			return bad("%s: operator notation over operators registered %s does not compile: %s\n src: %s\n operators: %v", be, lateText(c.First), describeOutcome(b), r.Src, c.Ops)
		}
		r.Runs = []*BackendRun{b}
		if err := compareWithRef(pc, r); err != nil {
			return &Outcome{Err: fmt.Errorf("operators registered %s: %v\n operators: %v", lateText(c.First), err, c.Ops)}
		}
	}
	return ok(c.First != "none", "operators-registered:"+lateText(c.First), fmt.Sprintf("user-operators:%d", len(c.Ops)))
}

func lateText(first string) string {
	if first == "none" {
		return "before first use"
	}
	return "after a first " + first
}

var c10ops = Register(&Prop[UserOpCase]{ID: "C10", Name: "user-operators", Gen: genUserOpCase, Check: checkUserOps})

func TestC10(t *testing.T) {
	R.Rule = "structural half: parsed trees from the C08 tree generator (all node kinds nested in all operand positions, any operator table) - desugared tree has only core forms, equals the reference rewrite (names, receiver-first argument order, literal text), desugaring twice changes nothing, the input tree (structure and positions) is untouched; semantic half: generated well-typed programs in sugared notation (?:, method calls, redundant parentheses, operators) against the explicit notation (if(...), f(o, args), no parentheses) in source and against hand-built call trees op(x, y) compiled directly - same inferred type, same value or failure, same host-function trace on every back end; operator notation over operators the host registers itself (infix / prefix / postfix, symbols and words, one of them spelt with two built-in operator characters), before the engine's first use or after a first Parse / Compile / CompileExpr, against the reference's reading op(x, y) / op(x) with the same host-function trace; a parsed tree given to a whole compilation (Expr.CompileExpr) is afterwards deep-equal, annotations included, to a second parse of the same text; non-trivial = >= 2 sugared nodes with one nested in another's operand, or a method call with a sugared receiver"
	R.Assume = []string{"ref.Desugar (harness) is the meaning of the notation"}
	reportKnown(t, "C10")
	runRegress(t, "C10")
	c10s.Run(t, budget(10000, 640000))
	c10m.Run(t, budget(4000, 200000))
	c10ops.Run(t, budget(2500, 120000))
}

var _ = val.True
