package props

import (
	"fmt"
	"testing"

	"github.com/goghcrow/yae"
	"pgregory.net/rapid"

	"verif/gen"
	m "verif/model"
	"verif/ref"
	"verif/run"
)

// C16 — optional values can only be consumed through a default (null safety).

type NullCase struct {
	Sig    int    `json:"sig"` // index into ref.BuiltIns, or -1..-4 for access forms
	Name   string `json:"name"`
	Pos    int    `json:"pos"`              // argument position given an optional
	Inst   int    `json:"inst"`             // instantiation of type variables
	AllOpt bool   `json:"allopt,omitempty"` // every occurrence of the parameter's type variable is optional
}

var nullInsts = []map[string]*m.Type{
	{"a": m.Num, "k": m.Str, "v": m.Num},
	{"a": m.Str, "k": m.Num, "v": m.List(m.Num)},
	{"a": m.List(m.Num), "k": m.Bool, "v": m.Str},
}

// nullProg builds f(x0, .., xn) where x_pos : maybe[P_pos].
func nullProg(c *NullCase, present bool) (*ProgCase, bool) {
	pc := &ProgCase{Env: map[string]*m.Type{}, Vals: map[string]*m.Val{}}
	inst := nullInsts[c.Inst%len(nullInsts)]
	bind := func(name string, t *m.Type, opt bool) *m.Expr {
		v := sampleValue(t)
		if opt {
			if present {
				v = m.VJust(t, v)
			} else {
				v = m.VNothing(t)
			}
		}
		pc.Env[name], pc.Vals[name] = v.T, v
		return m.V(name)
	}
	if c.Sig < 0 {
		// access forms on an optional
		switch c.Sig {
		case -1: // member access on an optional object
			ot := m.Obj(m.Field{Name: "a", T: m.Num})
			pc.E = m.Member(bind("o", ot, true), "a")
		case -2: // subscript on an optional list / optional as index
			if c.Pos == 0 {
				pc.E = m.Index(bind("xs", m.List(m.Num), true), m.Lit("num", "0"))
			} else {
				pc.E = m.Index(bind("xs", m.List(m.Num), false), bind("i", m.Num, true))
			}
		case -3: // subscript on an optional map / optional as key
			if c.Pos == 0 {
				pc.E = m.Index(bind("mp", m.Map(m.Str, m.Num), true), m.Lit("str", `"k"`))
			} else {
				pc.E = m.Index(bind("mp", m.Map(m.Str, m.Num), false), bind("ky", m.Str, true))
			}
		case -4: // optional as a list element type where the element is required
			pc.E = m.Call("max", bind("xs", m.List(m.Maybe(m.Num)), false))
		case -6:
			// get(optional container, default): the default's elements / values are themselves
			// optional (or of another type) - the result is then no list of numbers
			oa := bind("oa", m.Num, true)
			switch c.Pos {
			case 0:
				pc.E = m.Infix("+", m.Index(m.Call("get", bind("oxs", m.List(m.Num), true), m.ListE(oa)), m.Lit("num", "0")), m.Lit("num", "1"))
			case 1:
				pc.E = m.Call("max", m.Call("get", bind("oxs", m.List(m.Num), true), m.ListE(oa)))
			case 2:
				pc.E = m.Infix("+", m.Index(m.Call("get", bind("om", m.Map(m.Str, m.Num), true), m.MapE(m.Lit("str", `"a"`), oa)), m.Lit("str", `"a"`)), m.Lit("num", "1"))
			case 3:
				pc.E = m.Call("max", m.Call("get", bind("oxs", m.List(m.Num), true), m.ListE(m.Lit("str", `"s"`))))
			case 4:
				pc.E = m.Infix("+", m.Call("get", m.Call("get", bind("oxs", m.List(m.Num), true), m.ListE(oa)), m.Lit("num", "0"), m.Lit("num", "5")), m.Lit("num", "1"))
			default:
				return nil, false
			}
		case -5:
			// an optional where the payload is required, at the SECOND place where one composite
			// sub-term (the same variable, hence the same type object) occurs in the expected type
			pt := []*m.Type{m.List(m.Num), m.Map(m.Str, m.Num), m.Obj(m.Field{Name: "n", T: m.Num})}[c.Inst%3]
			xs, xs2 := bind("xs", pt, false), m.V("xs")
			ys := bind("ys", pt, false)
			oxs := bind("oxs", pt, true)
			first := m.ObjE([]string{"a", "b"}, []*m.Expr{xs, xs2})
			second := m.ObjE([]string{"a", "b"}, []*m.Expr{ys, oxs})
			switch c.Pos {
			case 0:
				pc.E = m.Member(m.Index(m.ListE(first, second), m.Lit("num", "1")), "b")
			case 1:
				pc.E = m.Member(m.Index(m.MapE(m.Lit("num", "1"), first, m.Lit("num", "2"), second), m.Lit("num", "2")), "b")
			case 2:
				pc.E = m.Member(m.Call("if", bind("c", m.Bool, false), first, second), "b")
			case 3:
				pc.E = m.Member(m.Call("get", m.ListE(first), m.Lit("num", "3"), second), "b")
			default:
				return nil, false
			}
		default:
			return nil, false
		}
		return pc, true
	}
	f := ref.BuiltIns[c.Sig]
	if c.Pos >= len(f.Params) {
		return nil, false
	}
	args := make([]*m.Expr, len(f.Params))
	pvar := ""
	if f.Params[c.Pos].K == m.TVar {
		pvar = f.Params[c.Pos].N
	}
	for i, p := range f.Params {
		pt := p.Subst1(inst)
		opt := i == c.Pos || (c.AllOpt && pvar != "" && p.K == m.TVar && p.N == pvar)
		args[i] = bind(fmt.Sprintf("x%d", i), pt, opt)
	}
	pc.E = gen.Parenthesize(opExpr(f.Name, args))
	return pc, true
}

func sampleValue(t *m.Type) *m.Val {
	switch t.K {
	case m.TNum:
		return m.VNum(2)
	case m.TStr:
		return m.VStr("k")
	case m.TBool:
		return m.VBool(true)
	case m.TTime:
		return m.VTimeUnix(86400)
	case m.TList:
		return &m.Val{T: t, L: []*m.Val{sampleValue(t.El()), sampleValue(t.El())}}
	case m.TMap:
		v := &m.Val{T: t}
		v.MapPut(sampleValue(t.Key()), sampleValue(t.Val()))
		return v
	case m.TMaybe:
		return m.VJust(t.El(), sampleValue(t.El()))
	case m.TObj:
		v := &m.Val{T: t}
		for _, f := range t.F {
			v.L = append(v.L, sampleValue(f.T))
		}
		return v
	}
	panic("sampleValue " + t.String())
}

func checkNull(c *NullCase) *Outcome {
	verdict := ""
	for _, present := range []bool{true, false} {
		pc, okk := nullProg(c, present)
		if !okk {
			return skip("no-such-position")
		}
		r := refRun(pc)
		accepted := r.RefErr == nil
		for _, be := range []run.Backend{run.VMSwitch, run.Closure, run.Interp} {
			en := run.NewEngine(be, nil)
			callable, cerr, cp := en.CompileSrc(r.Src, pc.Env)
			if cp != nil {
				return bad("%s: Compile panicked: %s\n src: %s", be, cp.Text, r.Src)
			}
			if (cerr == nil) != accepted {
				if accepted {
					return bad("%s: rejects %s although the rules accept it (type %s): %v\n env: %s", be, r.Src, r.RefType, cerr, envSummary(pc))
				}
				return bad("%s: accepts %s, which uses an optional where the underlying type is required (%v)\n env: %s", be, r.Src, r.RefErr, envSummary(pc))
			}
			if !accepted {
				continue
			}
			if s := domainSkip(r); s != "" {
				continue
			}
			o := &run.Outcome{Be: be}
			en.Invoke(callable, pc.Vals, o)
			b := &BackendRun{O: o}
			if !o.Failed() {
				b.Val, b.Probs = run.FromYaeVal(o.Val, r.RefType)
			}
			r.Runs = []*BackendRun{b}
			if err := compareWithRef(pc, r); err != nil {
				return &Outcome{Err: fmt.Errorf("payload present=%v: %v", present, err)}
			}
		}
		if accepted {
			verdict = "accepted-misuse-free"
		} else {
			verdict = "rejected-misuse"
		}
	}
	return ok(true, verdict, "builtin-x-position")
}

var c16enum = Register(&Prop[NullCase]{ID: "C16", Name: "optional-argument-matrix", Check: checkNull})

func eachNullCase(yield func(*NullCase) bool) {
	for si, f := range ref.BuiltIns {
		for pos := range f.Params {
			for inst := range nullInsts {
				if f.Mono() && inst > 0 {
					continue
				}
				for _, all := range []bool{false, true} {
					if all && f.Params[pos].K != m.TVar {
						continue
					}
					if !yield(&NullCase{Sig: si, Name: f.Impl, Pos: pos, Inst: inst, AllOpt: all}) {
						return
					}
				}
			}
		}
	}
	for _, c := range []*NullCase{{Sig: -1, Name: "member"}, {Sig: -2, Name: "list-subscript", Pos: 0}, {Sig: -2, Name: "list-index", Pos: 1},
		{Sig: -3, Name: "map-subscript", Pos: 0}, {Sig: -3, Name: "map-key", Pos: 1}, {Sig: -4, Name: "list-of-optional-where-list-of-num"},
		{Sig: -5, Name: "optional-at-second-occurrence", Pos: 0, Inst: 0}, {Sig: -5, Name: "optional-at-second-occurrence", Pos: 0, Inst: 1}, {Sig: -5, Name: "optional-at-second-occurrence", Pos: 0, Inst: 2},
		{Sig: -5, Name: "optional-at-second-occurrence", Pos: 1, Inst: 0}, {Sig: -5, Name: "optional-at-second-occurrence", Pos: 1, Inst: 2},
		{Sig: -5, Name: "optional-at-second-occurrence", Pos: 2, Inst: 0}, {Sig: -5, Name: "optional-at-second-occurrence", Pos: 2, Inst: 1},
		{Sig: -5, Name: "optional-at-second-occurrence", Pos: 3, Inst: 0}, {Sig: -5, Name: "optional-at-second-occurrence", Pos: 3, Inst: 2},
		{Sig: -6, Name: "default-with-optional-elements", Pos: 0}, {Sig: -6, Name: "default-with-optional-elements", Pos: 1}, {Sig: -6, Name: "default-with-optional-elements", Pos: 2},
		{Sig: -6, Name: "default-with-optional-elements", Pos: 3}, {Sig: -6, Name: "default-with-optional-elements", Pos: 4}} {
		if !yield(c) {
			return
		}
	}
}

// ---- (b) programs consuming optionals over host data with nil parts

type NullProgCase struct {
	ProgCase
	NilStyle bool `json:"nilstyle,omitempty"` // absent lists / maps as nil slices / nil maps
	// PtrStyle: required bindings are untagged non-nil pointers; after the accepted
	// evaluation the same Callable is given a value of the SAME Go type in which the pointer of
	// NilName is nil (an absent optional where the program requires the payload): it must be
	// refused, never evaluated
	PtrStyle bool   `json:"ptrstyle,omitempty"`
	NilName  string `json:"nilname,omitempty"`
	// ValStyle: a present optional is a maybe-tagged field of the payload's own Go type
	ValStyle bool `json:"valstyle,omitempty"`
}

func genNullProg(t *rapid.T) *NullProgCase {
	o := gen.ProgOpt{Fuel: 4, Partial: false, Sugar: true, Maybe: true, Times: true, HostEnv: true, NoStringOf: false}
	g := gen.NewG(t, o)
	// make sure optionals are around: pre-bind a few
	for i := 0; i < 2; i++ {
		el := pick2(t, []*m.Type{m.Num, m.Str, m.List(m.Num), m.Map(m.Str, m.Num), m.Obj(m.Field{Name: "a", T: m.Num}, m.Field{Name: "b", T: m.Maybe(m.Str)})})
		g.Var(m.Maybe(el))
	}
	want := g.AnyResultType()
	e := g.Expr(want)
	if rapid.IntRange(0, 2).Draw(t, "cmp") == 0 {
		// == / != between two containers that hold optionals at the same
		// position, present on one side and absent on the other (or both alike)
		g.Stats["optional-comparison"]++
		e = m.Call("if", optionalComparison(t, g), e, g.Expr(want))
	}
	c := &NullProgCase{NilStyle: rapid.Bool().Draw(t, "nilstyle")}
	c.E, c.Env, c.Vals, c.Stats = e, g.Env, g.Vals, g.Stats
	for n, v := range c.Vals {
		v = v.Conform(nil) // host data has one field order per position
		c.Vals[n] = v
		c.Env[n] = v.T
	}
	if rapid.IntRange(0, 2).Draw(t, "ptrstyle") == 0 {
		var req []string
		for n, v := range c.Vals {
			if v.T.K != m.TMaybe {
				req = append(req, n)
			}
		}
		sortStringsInPlace(req)
		if len(req) > 0 {
			c.PtrStyle, c.NilStyle = true, false
			c.NilName = req[rapid.IntRange(0, len(req)-1).Draw(t, "nilname")]
		}
	}
	if !c.PtrStyle && rapid.IntRange(0, 2).Draw(t, "valstyle") == 0 {
		c.ValStyle, c.NilStyle = true, false
	}
	return c
}

// optionalComparison builds  C(a) == C(b)  (or !=) where a, b are fresh optional
// variables of one type with independently drawn presence and C puts them at the
// same position of a list, nested list, map, object, or list of objects bound
// from the host.
func optionalComparison(t *rapid.T, g *gen.G) *m.Expr {
	el := pick2(t, []*m.Type{m.Num, m.Str, m.Bool, m.List(m.Num), m.Obj(m.Field{Name: "a", T: m.Num})})
	mk := func(label string) *m.Val {
		if rapid.Bool().Draw(t, label) {
			return m.VJust(el, gen.Value(t, el, gen.ValOpt{MaxLen: 2, Clear: true}))
		}
		return m.VNothing(el)
	}
	va, vb := mk("a-present"), mk("b-present")
	if va.P != nil && vb.P != nil && rapid.Bool().Draw(t, "same-payload") {
		vb = m.VJust(el, va.P)
	}
	var l, r *m.Expr
	shape := rapid.IntRange(1, 6).Draw(t, "shape") // (== has no overload for optionals themselves)
	if shape == 6 {
		// the containers themselves come from the host: lists of objects with an optional field
		ot := m.Obj(m.Field{Name: "f", T: m.Maybe(el)}, m.Field{Name: "g", T: m.Num})
		n := rapid.IntRange(1, 3).Draw(t, "len")
		at := rapid.IntRange(0, n-1).Draw(t, "at")
		xs, ys := make([]*m.Val, n), make([]*m.Val, n)
		for i := range xs {
			shared := mk("shared")
			xs[i] = m.VObj(ot, shared, m.VNum(float64(i)))
			ys[i] = m.VObj(ot, shared, m.VNum(float64(i)))
			if i == at {
				xs[i] = m.VObj(ot, va, m.VNum(float64(i)))
				ys[i] = m.VObj(ot, vb, m.VNum(float64(i)))
			}
		}
		l = g.FreshVar(m.List(ot), m.VList(ot, xs...))
		r = g.FreshVar(m.List(ot), m.VList(ot, ys...))
	} else {
		a, b := g.FreshVar(m.Maybe(el), va), g.FreshVar(m.Maybe(el), vb)
		switch shape {
		case 1:
			l, r = m.ListE(a), m.ListE(b)
		case 2:
			s := g.FreshVar(m.Maybe(el), mk("shared"))
			l, r = m.ListE(s, a), m.ListE(s, b)
		case 3:
			l, r = m.ListE(m.ListE(a)), m.ListE(m.ListE(b))
		case 4:
			l, r = m.MapE(m.Lit("str", `"k"`), a), m.MapE(m.Lit("str", `"k"`), b)
		default:
			// (== has no overload for objects themselves either: inside a list)
			l, r = m.ListE(m.ObjE([]string{"f", "n"}, []*m.Expr{a, m.Lit("num", "1")})), m.ListE(m.ObjE([]string{"f", "n"}, []*m.Expr{b, m.Lit("num", "1")}))
		}
	}
	return m.Infix(pick2(t, []string{"==", "!="}), l, r)
}

func pick2[T any](t *rapid.T, xs []T) T { return xs[rapid.IntRange(0, len(xs)-1).Draw(t, "pick")] }

func countOptionals(vals map[string]*m.Val) (present, absent, nested int) {
	var w func(v *m.Val, depth int)
	w = func(v *m.Val, depth int) {
		if v == nil {
			return
		}
		if v.T.K == m.TMaybe {
			if v.P == nil {
				absent++
			} else {
				present++
			}
			if depth > 0 {
				nested++
			}
		}
		for _, x := range v.L {
			w(x, depth+1)
		}
		for _, e := range v.M {
			w(e.V, depth+1)
		}
		w(v.P, depth+1)
	}
	for _, v := range vals {
		w(v, 0)
	}
	return
}

func checkNullProg(c *NullProgCase) *Outcome {
	pc := &c.ProgCase
	r := refRun(pc)
	if r.RefErr != nil {
		return skip("harness:reference-rejects-generated-program")
	}
	if s := domainSkip(r); s != "" {
		return skip(s)
	}
	if r.RefFail != nil {
		return bad("harness: a program without partial operations fails in the reference: %v\n src: %s", r.RefFail, r.Src)
	}
	if !run.HostableEnv(pc.Env) {
		return skip("env-not-hostable")
	}
	var envObj, nilObj interface{}
	byValue := false
	switch {
	case c.PtrStyle:
		envObj = run.EnvStructPtrMixed(pc.Vals, "")
		nilObj = run.EnvStructPtrMixed(pc.Vals, c.NilName)
	case c.ValStyle:
		envObj, byValue = run.EnvStructMaybeByValue(pc.Vals)
	case c.NilStyle:
		envObj = run.EnvStructNil(pc.Vals)
	default:
		envObj = run.EnvStruct(pc.Vals)
	}
	for _, be := range run.AllBackends {
		en := run.NewEngine(be, nil)
		var callable yae.Callable
		var cerr error
		if p := run.Guard(func() { callable, cerr = en.E.Compile(r.Src, envObj) }); p != nil {
			return bad("%s: Compile panicked: %s\n src: %s", be, p.Text, r.Src)
		}
		if cerr != nil {
			return bad("%s: program over host data does not compile: %v\n src: %s\n env: %s", be, cerr, r.Src, envSummary(pc))
		}
		o := &run.Outcome{Be: be}
		o.RunPan = run.Guard(func() { o.Val, o.RunErr = callable(envObj) })
		if o.Failed() {
			return bad("%s: evaluation over host data with absent parts failed: %s\n src: %s\n env: %s", be, o.FailText(), r.Src, envSummary(pc))
		}
		b := &BackendRun{O: o}
		b.Val, b.Probs = run.FromYaeVal(o.Val, r.RefType)
		r.Runs = []*BackendRun{b}
		if err := compareWithRef(pc, r); err != nil {
			return &Outcome{Err: err}
		}
		if nilObj != nil {
			// same Go type, the pointer of a required binding nil: an optional where the payload is required
			o2 := &run.Outcome{Be: be}
			o2.RunPan = run.Guard(func() { o2.Val, o2.RunErr = callable(nilObj) })
			if o2.RunPan != nil {
				return bad("%s: host data of the same Go type with %s absent made the Callable panic: %s\n src: %s\n env: %s", be, c.NilName, o2.RunPan.Text, r.Src, envSummary(pc))
			}
			if o2.RunErr == nil {
				return bad("%s: the program requires %s : %s, yet host data of the same Go type in which it is absent (nil pointer) was accepted and evaluated to %s\n src: %s\n env: %s", be, c.NilName, pc.Env[c.NilName], renderVal(o2.Val), r.Src, envSummary(pc))
			}
			// and the original data is still accepted afterwards
			o3 := &run.Outcome{Be: be}
			o3.RunPan = run.Guard(func() { o3.Val, o3.RunErr = callable(envObj) })
			if o3.Failed() {
				return bad("%s: evaluation over the original host data fails after a refused call: %s\n src: %s", be, o3.FailText(), r.Src)
			}
		}
	}
	present, absent, nested := countOptionals(pc.Vals)
	classes := []string{}
	if present > 0 {
		classes = append(classes, "present")
	}
	if absent > 0 {
		classes = append(classes, "absent")
	}
	if nested > 0 {
		classes = append(classes, "nested-in-container")
	}
	if c.NilStyle {
		classes = append(classes, "nil-slice-or-map-style")
	}
	if c.PtrStyle {
		classes = append(classes, "untagged-pointers:then-same-go-type-with-nil")
	}
	if byValue {
		classes = append(classes, "present-optional-as-tagged-value-field")
	}
	if pc.Stats["get-maybe"] > 0 {
		classes = append(classes, "get-with-default")
	}
	return ok(present+absent > 0, classes...)
}

var c16prog = Register(&Prop[NullProgCase]{ID: "C16", Name: "programs-over-optionals", Gen: genNullProg, Check: checkNullProg})

func TestC16(t *testing.T) {
	R.Rule = "(a) enumerated: every built-in x every argument position given an optional of the required type (three instantiations of type variables; the parameter's variable optional in one or in all positions), member / subscript access on an optional, optional as index / key, list of optionals where a list of numbers is required, a default of get(optional container, default) whose elements are optional, an optional at the second place where one variable's composite type occurs in the expected type of a list / map / conditional / default - reference checker decides accept / reject, Compile must agree on three back ends, accepted ones are evaluated for present and absent payloads; (b) random well-typed programs over Go host data (structs with tagged nil / non-nil pointers, present optionals also as maybe-tagged fields of the payload's own Go type holding the payload itself (zero values included), nil slices and nil maps) that consume optionals through get(optional, default) and move them through polymorphic positions, evaluated on four back ends against the reference; one case in three supplies required bindings as untagged non-nil pointers and then gives the same Callable a value of the same Go type with one of those pointers nil, which must be refused and not evaluated; (c) Go containers (slices, arrays, maps) of structs whose pointer / slice / map fields are nil or not per element, pointers to pointers and interfaces holding pointers with the nil at the outer or at the inner level included: either rejected as inconsistent or converted to a value in which every component has the type its container declares (an absent part only at an optional-typed position); non-trivial = the program mentions an optional-typed name"
	R.Assume = []string{"ref.Check / ref.Eval"}
	reportKnown(t, "C16")
	runRegress(t, "C16")
	c16enum.Each(t, "builtin-x-position", eachNullCase)
	c16prog.Run(t, budget(5000, 320000))
	c16host.Run(t, budget(3000, 160000))
}

// ---- (c) host data with nil parts: whatever converts is well-formed, and an
// absent part is only ever reachable through an optional-typed position

func genNilHost(t *rapid.T) *HostCase {
	g := &hostGen{t: t}
	// a struct holding a slice of structs with pointer / slice / map fields, nil or not per element
	inner := &H{K: "struct"}
	n := rapid.IntRange(1, 3).Draw(t, "ninner")
	for i := 0; i < n; i++ {
		ft := pick2(t, []*H{{K: "ptr", Elem: &H{K: "float64"}}, {K: "ptr", Elem: &H{K: "string"}}, {K: "slice", Elem: &H{K: "int"}}, {K: "map", KeyT: &H{K: "string"}, Elem: &H{K: "bool"}}, {K: "string"}, {K: "int"}, {K: "ptr", Elem: &H{K: "time"}},
			// a nil pointer that is not the outermost indirection: behind another pointer, or as the typed nil held by an interface
			{K: "ptr", Elem: &H{K: "ptr", Elem: &H{K: "float64"}}}, {K: "iface", Elem: &H{K: "ptr", Elem: &H{K: "string"}}}, {K: "ptr", Elem: &H{K: "ptr", Elem: &H{K: "string"}}}})
		tag := ""
		if nilable(ft) && rapid.IntRange(0, 2).Draw(t, "tagged") == 0 {
			tag = fmt.Sprintf(`yae:"f%d,maybe"`, i)
		}
		inner.Fields = append(inner.Fields, HF{Go: goFieldNames[i], Tag: tag})
		inner.Items = append(inner.Items, ft)
	}
	var container *H
	switch rapid.IntRange(0, 2).Draw(t, "container") {
	case 0:
		container = &H{K: "slice", Elem: inner}
	case 1:
		container = &H{K: "map", KeyT: &H{K: "string"}, Elem: inner}
	default:
		container = &H{K: "array", Elem: inner, Items: make([]*H, rapid.IntRange(2, 3).Draw(t, "alen"))}
	}
	top := &H{K: "struct", Fields: []HF{{Go: "Items", Tag: `yae:"items"`}, {Go: "N", Tag: `yae:"n"`}}, Items: []*H{container, {K: "int"}}}
	return &HostCase{V1: g.fill(top, true)}
}

func checkNilHost(c *HostCase) *Outcome {
	v, verr, _, _, p, goV := convertOne(c.V1)
	desc := fmt.Sprintf("%#v", goV)
	if len(desc) > 700 {
		desc = desc[:700] + "..."
	}
	if p != nil {
		return bad("conversion panicked: %s (%s)", p.Text, desc)
	}
	want, werr, unspec := expect(c.V1, 0)
	if unspec {
		return skip("unspecified")
	}
	if verr != nil {
		if werr == nil {
			return bad("host data with nil parts rejected: %v (%s)", verr, desc)
		}
		return ok(true, "inconsistent-nil-ness-rejected")
	}
	// accepted: every component must have the type its container declares, so that an
	// absent part can only sit where the static type says optional
	got, probs := run.FromYaeVal(v, nil)
	if len(probs) > 0 || got == nil {
		return bad("converted host data is not well-formed - an absent part sits where the declared type is not optional: %v (%s)", probs, desc)
	}
	if werr != nil {
		return bad("inconsistent host data (%v) converted to %s (%s)", werr, got.Render(), desc)
	}
	_ = want
	// and a program over it that only uses get-with-default evaluates
	present, absent, _ := countOptionals(map[string]*m.Val{"v": got})
	return ok(absent > 0, fmt.Sprintf("absent-parts:%v", absent > 0), fmt.Sprintf("present-parts:%v", present > 0))
}

var c16host = Register(&Prop[HostCase]{ID: "C16", Name: "nil-parts-in-containers", Gen: genNilHost, Check: checkNilHost})
