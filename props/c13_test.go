package props

import (
	"fmt"
	"io"
	"math"
	"reflect"
	"strings"
	"testing"
	"time"

	"github.com/goghcrow/yae"
	"github.com/goghcrow/yae/compiler"
	"github.com/goghcrow/yae/fun"
	"github.com/goghcrow/yae/interp"
	"github.com/goghcrow/yae/parser/ast"
	"github.com/goghcrow/yae/types"
	"github.com/goghcrow/yae/val"
	"pgregory.net/rapid"

	"verif/gen"
	m "verif/model"
	"verif/ref"
	"verif/run"
)

// C13 — evaluation is deterministic, side-effect free and leaves its inputs reusable.

type HOp struct {
	Kind     string `json:"kind"` // compile | invoke | eval | debug | render
	Engine   int    `json:"engine,omitempty"`
	Expr     int    `json:"expr,omitempty"`
	TyObj    int    `json:"tyobj,omitempty"`
	ValObj   int    `json:"valobj,omitempty"`
	Callable int    `json:"callable,omitempty"`
	// compile: Wrap > 0 compiles the expression inside a template that calls the host function
	// nest (identity); while nest runs, callable NCallable (possibly the very one being
	// evaluated) is invoked with value object NValObj - an invocation nested in another one
	Wrap      int `json:"wrap,omitempty"`
	NCallable int `json:"ncallable,omitempty"`
	NValObj   int `json:"nvalobj,omitempty"`
}

var nestTemplates = []string{"", "nest(%s)", "{a: nest(0), b: %s}.b", "if(nest(true), %s, %s)", "nest(nest(%s))", "[%s, nest(%s)][1]"}

func nestWrap(src string, k int) string {
	tpl := nestTemplates[k%len(nestTemplates)]
	if tpl == "" {
		return src
	}
	return strings.ReplaceAll(tpl, "%s", "("+src+")")
}

type HistCase struct {
	Exprs []*m.Expr          `json:"exprs"`
	Env   map[string]*m.Type `json:"env"`
	ValsA map[string]*m.Val  `json:"valsA"`
	ValsB map[string]*m.Val  `json:"valsB"`
	Ops   []HOp              `json:"ops"`
}

func genHistCase(t *rapid.T) *HistCase {
	o := gen.ProgOpt{Fuel: 3, Partial: true, Sugar: true, Maybe: true, Times: true, Print: true, HostEnv: true}
	g := gen.NewG(t, o)
	c := &HistCase{}
	n := rapid.IntRange(1, 4).Draw(t, "nexprs")
	for i := 0; i < n; i++ {
		var want *m.Type
		switch rapid.IntRange(0, 4).Draw(t, "want") {
		case 0:
			want = m.Map(m.Str, m.Num) // results with several map entries
		case 1:
			want = m.Str // string(x) of something
		default:
			want = g.AnyResultType()
		}
		c.Exprs = append(c.Exprs, g.Expr(want))
	}
	c.Env = g.Env
	c.ValsA, c.ValsB = map[string]*m.Val{}, map[string]*m.Val{}
	names := make([]string, 0, len(g.Vals))
	for name := range g.Vals {
		names = append(names, name)
	}
	sortStringsInPlace(names) // draws below must not depend on map iteration order
	for _, name := range names {
		v := g.Vals[name]
		v = v.Conform(nil)
		c.ValsA[name] = v
		c.Env[name] = v.T
		if rapid.Bool().Draw(t, "sameB") {
			c.ValsB[name] = v
		} else {
			c.ValsB[name] = gen.Value(t, v.T, gen.ValOpt{MaxLen: 4})
		}
	}
	// built-ins that read a whole container: applied to list-typed bindings whose values repeat
	// an element before a further one (a built-in must not rearrange its argument in place)
	for _, name := range names {
		ty := c.Env[name]
		if ty.K != m.TList || ty.El().K == m.TBot || len(c.Exprs) >= 6 || !rapid.Bool().Draw(t, "setop") {
			continue
		}
		for _, vals := range []map[string]*m.Val{c.ValsA, c.ValsB} {
			v := vals[name]
			if len(v.L) >= 2 && rapid.Bool().Draw(t, "dupmid") {
				nv := &m.Val{T: v.T}
				i := rapid.IntRange(0, len(v.L)-2).Draw(t, "dupat")
				nv.L = append(nv.L, v.L[:i+1]...)
				nv.L = append(nv.L, v.L[i])
				nv.L = append(nv.L, v.L[i+1:]...)
				vals[name] = nv
			}
		}
		x := m.V(name)
		var e *m.Expr
		switch rapid.IntRange(0, 3).Draw(t, "setopkind") {
		case 0:
			e = m.Call("union", x, m.ListE())
		case 1:
			e = m.Call("intersect", x, x.Clone())
		case 2:
			e = m.Call("diff", x, m.ListE())
		default:
			e = m.Call("union", m.ListE(), x)
		}
		if rapid.Bool().Draw(t, "thenread") {
			e = m.ListE(e, x.Clone()) // ... and the binding is read again in the same evaluation
		}
		c.Exprs = append(c.Exprs, e)
		n = len(c.Exprs)
	}
	nops := rapid.IntRange(3, 25).Draw(t, "nops")
	for i := 0; i < nops; i++ {
		c.Ops = append(c.Ops, HOp{
			Kind:     pick2(t, []string{"compile", "compile", "invoke", "invoke", "invoke", "eval", "debug", "render"}),
			Engine:   rapid.IntRange(0, 2).Draw(t, "engine"),
			Expr:     rapid.IntRange(0, n-1).Draw(t, "expr"),
			TyObj:    rapid.IntRange(0, 2).Draw(t, "tyobj"),
			ValObj:   rapid.IntRange(0, 4).Draw(t, "valobj"),
			Callable: rapid.IntRange(0, 7).Draw(t, "callable"),
		})
		if rapid.IntRange(0, 2).Draw(t, "nested") == 0 {
			op := &c.Ops[len(c.Ops)-1]
			op.Wrap = rapid.IntRange(1, len(nestTemplates)-1).Draw(t, "wrap")
			op.NCallable = rapid.IntRange(0, 7).Draw(t, "ncallable")
			op.NValObj = rapid.IntRange(0, 4).Draw(t, "nvalobj")
		}
	}
	return c
}

type compiled struct {
	c    yae.Callable
	expr int
	be   string
	wrap int
}

func checkHist(c *HistCase) *Outcome {
	hostOK := run.HostableEnv(c.Env)
	// ---- the model: each (expression, environment contents) evaluated by the reference
	type exp struct {
		r *CaseRun
	}
	model := map[string]*exp{}
	expect := func(expr int, vals map[string]*m.Val, tag string) *CaseRun {
		k := fmt.Sprintf("%d/%s", expr, tag)
		if e, okk := model[k]; okk {
			return e.r
		}
		pc := &ProgCase{E: c.Exprs[expr], Env: c.Env, Vals: vals}
		r := refRun(pc)
		model[k] = &exp{r}
		return r
	}
	srcs := make([]string, len(c.Exprs))
	for i := range c.Exprs {
		r := expect(i, c.ValsA, "A")
		if r.RefErr != nil {
			return skip("harness:reference-rejects-generated-program")
		}
		if s := domainSkip(r); s != "" {
			return skip(s)
		}
		if s := domainSkip(expect(i, c.ValsB, "B")); s != "" {
			return skip(s)
		}
		srcs[i] = r.Src
	}
	// ---- the objects that are deliberately reused
	engines := []*yae.Expr{yae.NewExpr(), yae.NewExpr().UseClosureCompiler(), yae.NewExpr().EnableDebug(io.Discard)}
	engineName := []string{"vm#0", "closure#1", "vm#2(stage log enabled, discarded)"}
	// nest :: forall a. a -> a, a host function that gives the harness control in the middle of an evaluation
	var nestHook func()
	for _, e := range engines {
		a := types.TyVar("a")
		e.RegisterFun(val.Fun(types.Fun("nest", []*types.Type{a}, a), func(args ...*val.Val) *val.Val {
			if nestHook != nil {
				nestHook()
			}
			return args[0]
		}))
	}
	nestedDone := 0
	var tyObjs []interface{}
	var tyNames []string
	rawTy := run.TypeEnv(c.Env)
	tyObjs, tyNames = append(tyObjs, rawTy), append(tyNames, "raw *types.Env")
	type vobj struct {
		obj  interface{}
		tag  string
		name string
		twin interface{} // an identical host value built separately, to detect modification
	}
	en := run.NewEngine(run.VMSwitch, nil)
	valObjs := []vobj{{obj: en.ValEnv(c.ValsA), tag: "A", name: "raw *val.Env A"}, {obj: en.ValEnv(c.ValsB), tag: "B", name: "raw *val.Env B"}}
	if hostOK {
		tyObjs, tyNames = append(tyObjs, run.EnvStruct(c.ValsA)), append(tyNames, "struct sample")
		valObjs = append(valObjs, vobj{obj: run.EnvStruct(c.ValsA), tag: "A", name: "struct A", twin: run.EnvStruct(c.ValsA)},
			vobj{obj: run.EnvStruct(c.ValsB), tag: "B", name: "struct B", twin: run.EnvStruct(c.ValsB)})
		if mp, okk := run.EnvMap(c.ValsA); okk {
			twin, _ := run.EnvMap(c.ValsA)
			tyObjs, tyNames = append(tyObjs, mp), append(tyNames, "map sample")
			valObjs = append(valObjs, vobj{obj: mp, tag: "A", name: "map A", twin: twin})
		}
	}
	vals := map[string]map[string]*m.Val{"A": c.ValsA, "B": c.ValsB}
	// raw value environments are inputs too: their bindings must read the same after every step
	rawEnvText := func(vo vobj) string {
		ve, isRaw := vo.obj.(*val.Env)
		if !isRaw {
			return ""
		}
		var b strings.Builder
		for _, n := range sortedNames(vals[vo.tag]) {
			v, okk := ve.Get(n)
			if !okk {
				fmt.Fprintf(&b, "%s=<missing> ", n)
				continue
			}
			if v.Type != nil && v.Type.Kind == types.KFun {
				continue
			}
			fmt.Fprintf(&b, "%s=%s ", n, renderVal(v))
		}
		return b.String()
	}
	rawBefore := make([]string, len(valObjs))
	for i, vo := range valObjs {
		rawBefore[i] = rawEnvText(vo)
	}
	var callables []compiled
	var results []*val.Val
	var resultRenderings []string
	reuse, multiMap := 0, false
	usedTy, usedVal := map[int]int{}, map[int]int{}

	history := func(upto int) string {
		var b strings.Builder
		for i := 0; i <= upto && i < len(c.Ops); i++ {
			op := c.Ops[i]
			fmt.Fprintf(&b, "\n   %d. %s expr=%d engine=%d tyobj=%d valobj=%d callable=%d", i, op.Kind, op.Expr, op.Engine, op.TyObj, op.ValObj, op.Callable)
		}
		return b.String()
	}
	checkOutcome := func(step int, what string, r *CaseRun, v *val.Val, err error, p *run.Panic, out string) *Outcome {
		ctx := func() string {
			return fmt.Sprintf("\n step %d (%s), src: %s\n history:%s", step, what, r.Src, history(step))
		}
		if p != nil {
			if r.RefFail != nil {
				return nil // whether failures are errors or panics is C12's subject
			}
			return bad("%s panicked: %s%s", what, p.Text, ctx())
		}
		wantOut := ""
		for _, l := range r.RefOut {
			wantOut += l + "\n"
		}
		if r.RefFail != nil {
			if err == nil {
				return bad("%s yields %s, evaluated alone the expression fails (%v)%s", what, renderVal(v), r.RefFail, ctx())
			}
			return nil
		}
		if err != nil {
			return bad("%s fails (%v); evaluated alone the expression yields %s%s", what, err, r.RefVal.Render(), ctx())
		}
		got, probs := run.FromYaeVal(v, r.RefType)
		if len(probs) > 0 || got == nil || !m.Identical(got, r.RefVal) {
			return bad("%s yields %s; evaluated alone the expression yields %s%s", what, renderVal(v), r.RefVal.Render(), ctx())
		}
		if out != wantOut {
			return bad("%s wrote %q to standard output, print accounts for %q%s", what, out, wantOut, ctx())
		}
		if hasBigMap(r.RefVal) {
			multiMap = true
		}
		results = append(results, v)
		resultRenderings = append(resultRenderings, v.String())
		return nil
	}

	for step, op := range c.Ops {
		switch op.Kind {
		case "compile":
			ti := op.TyObj % len(tyObjs)
			e := engines[op.Engine%3]
			var cl yae.Callable
			var cerr error
			p := run.Guard(func() { cl, cerr = e.Compile(nestWrap(srcs[op.Expr], op.Wrap), tyObjs[ti]) })
			if p != nil || cerr != nil {
				return bad("compiling expression %d on %s against %s (used %d times before) fails: err=%v panic=%v\n src: %s\n history:%s",
					op.Expr, engineName[op.Engine%3], tyNames[ti], usedTy[ti], cerr, p, srcs[op.Expr], history(step))
			}
			if usedTy[ti] > 0 {
				reuse++
			}
			usedTy[ti]++
			callables = append(callables, compiled{cl, op.Expr, engineName[op.Engine%3], op.Wrap})
		case "invoke":
			if len(callables) == 0 {
				continue
			}
			cc := callables[op.Callable%len(callables)]
			vi := op.ValObj % len(valObjs)
			vo := valObjs[vi]
			r := expect(cc.expr, vals[vo.tag], vo.tag)
			var v *val.Val
			var err error
			var p *run.Panic
			what := fmt.Sprintf("invoking the %s callable of expression %d with %s (used %d times before)", cc.be, cc.expr, vo.name, usedVal[vi])
			var out string
			if cc.wrap == 0 {
				out = run.CaptureStdout(func() { p = run.Guard(func() { v, err = cc.c(vo.obj) }) })
			} else {
				// nested invocations: while nest runs inside this evaluation, another callable (or this
				// one) is invoked to completion; both must have the outcome they have alone.
				// Standard output is not compared here (the two evaluations' prints interleave).
				depth := 0
				var nestedBad *Outcome
				nc := callables[op.NCallable%len(callables)]
				nvo := valObjs[op.NValObj%len(valObjs)]
				nr := expect(nc.expr, vals[nvo.tag], nvo.tag)
				nestHook = func() {
					depth++
					defer func() { depth-- }()
					if depth > 2 || nestedBad != nil {
						return
					}
					var nv *val.Val
					var nerr error
					np := run.Guard(func() { nv, nerr = nc.c(nvo.obj) })
					nestedDone++
					nwhat := fmt.Sprintf("invoking the %s callable of expression %d with %s from inside the evaluation of (%s)", nc.be, nc.expr, nvo.name, what)
					wantOut := ""
					for _, l := range nr.RefOut {
						wantOut += l + "\n"
					}
					nestedBad = checkOutcome(step, nwhat, nr, nv, nerr, np, wantOut)
				}
				p = run.Guard(func() { v, err = cc.c(vo.obj) })
				nestHook = nil
				if nestedBad != nil {
					return nestedBad
				}
				for _, l := range r.RefOut {
					out += l + "\n"
				}
				what += " (with a nested invocation)"
			}
			if o := checkOutcome(step, what, r, v, err, p, out); o != nil {
				return o
			}
			if usedVal[vi] > 0 {
				reuse++
			}
			usedVal[vi]++
			if vo.twin != nil && !reflect.DeepEqual(vo.obj, vo.twin) {
				return bad("%s modified the host value\n history:%s", what, history(step))
			}
			for i, o := range valObjs {
				if now := rawEnvText(o); now != rawBefore[i] {
					return bad("%s modified the value environment %s: it read %s, now reads %s\n src: %s\n history:%s", what, o.name, rawBefore[i], now, r.Src, history(step))
				}
			}
		case "eval", "debug":
			var hosts []vobj
			for _, vo := range valObjs {
				if vo.twin != nil {
					hosts = append(hosts, vo)
				}
			}
			if len(hosts) == 0 {
				continue
			}
			vo := hosts[op.ValObj%len(hosts)]
			if op.Kind == "debug" && strings.ContainsAny(srcs[op.Expr], "\n\r") {
				continue // debug mode is documented to take single-line sources only
			}
			r := expect(op.Expr, vals[vo.tag], vo.tag)
			var v *val.Val
			var err error
			var p *run.Panic
			out := run.CaptureStdout(func() {
				p = run.Guard(func() {
					if op.Kind == "eval" {
						v, err = yae.Eval(srcs[op.Expr], vo.obj)
					} else {
						v, _, err = yae.Debug(srcs[op.Expr], vo.obj)
					}
				})
			})
			what := fmt.Sprintf("%s of expression %d with %s", op.Kind, op.Expr, vo.name)
			if o := checkOutcome(step, what, r, v, err, p, out); o != nil {
				return o
			}
			if !reflect.DeepEqual(vo.obj, vo.twin) {
				return bad("%s modified the host value\n history:%s", what, history(step))
			}
		case "render":
			if len(results) == 0 {
				continue
			}
			i := op.Callable % len(results)
			for k := 0; k < 16; k++ {
				if s := results[i].String(); s != resultRenderings[i] {
					return bad("rendering one value twice gives %q and %q\n history:%s", resultRenderings[i], s, history(step))
				}
			}
		}
	}
	classes := []string{}
	if reuse > 0 {
		classes = append(classes, "environment-object-reused")
	}
	if multiMap {
		classes = append(classes, "result-with-multi-entry-map")
	}
	if hostOK {
		classes = append(classes, "host-objects")
	}
	if nestedDone > 0 {
		classes = append(classes, "invocation-nested-in-an-evaluation")
	}
	return ok(reuse > 0 && (multiMap || len(results) > 1), classes...)
}

func sortedNames(mp map[string]*m.Val) []string {
	ks := make([]string, 0, len(mp))
	for k := range mp {
		ks = append(ks, k)
	}
	sortStringsInPlace(ks)
	return ks
}

func hasBigMap(v *m.Val) bool {
	if v == nil {
		return false
	}
	if v.T.K == m.TMap && len(v.M) >= 2 {
		return true
	}
	for _, x := range v.L {
		if hasBigMap(x) {
			return true
		}
	}
	for _, e := range v.M {
		if hasBigMap(e.V) {
			return true
		}
	}
	return hasBigMap(v.P)
}

var c13 = Register(&Prop[HistCase]{ID: "C13", Name: "histories", Gen: genHistCase, Check: checkHist})

// ---- repeated evaluation of one program: the result and its text never vary

func checkRepeat(c *ProgCase) *Outcome {
	r := refRun(c)
	if r.RefErr != nil {
		return skip("harness:reference-rejects-generated-program")
	}
	if s := domainSkip(r); s != "" {
		return skip(s)
	}
	var first string
	for _, be := range []run.Backend{run.VMSwitch, run.Closure} {
		for k := 0; k < 6; k++ {
			en := run.NewEngine(be, nil)
			var o *run.Outcome
			out := run.CaptureStdout(func() { o = en.RunSrc(r.Src, c.Env, c.Vals) })
			text := ""
			switch {
			case !o.Compiled():
				return bad("accepted program does not compile: %v %v\n src: %s", o.CompileErr, o.CompilePan, r.Src)
			case o.Failed():
				text = "fails"
			default:
				text = o.Val.String() + "|" + out
				if sv, okk := run.FromYaeVal(o.Val, r.RefType); okk == nil && sv.T.K == m.TStr {
					text += "|" + sv.S
				}
			}
			if first == "" {
				first = text
			} else if text != first {
				return bad("repeating the evaluation changes the outcome: %q then %q\n src: %s\n env: %s", first, text, r.Src, envSummary(c))
			}
		}
	}
	wantOut := ""
	for _, l := range r.RefOut {
		wantOut += l + "\n"
	}
	if r.RefFail == nil && !strings.HasSuffix(first, "|"+wantOut) && !(r.RefType.K == m.TStr) {
		return bad("standard output differs from what print accounts for (%q): outcome %q\n src: %s", wantOut, first, r.Src)
	}
	return ok(hasBigMap(r.RefVal) || len(r.RefOut) > 0, "repeat")
}

var c13repeatOpt = gen.ProgOpt{Fuel: 4, Partial: true, Sugar: false, Maybe: true, Times: true, Print: true}
var c13repeat = Register(&Prop[ProgCase]{ID: "C13", Name: "repeat", Gen: genProgCase(c13repeatOpt, nil), Check: checkRepeat})

// ---- Go maps as host data: Go iterates a map in a different order every time, conversion
// inserts in that order; nothing a program can observe may depend on it

type HostMapCase struct {
	Kind string `json:"kind"` // time-subsecond | float-neighbours | string | int | time-zones
	N    int    `json:"n"`    // number of entries (2..6)
}

func hostMapKeys(kind string) []interface{} {
	t0 := time.Unix(1600000000, 0).UTC()
	switch kind {
	case "time-subsecond":
		return []interface{}{t0, t0.Add(1), t0.Add(500 * time.Millisecond), t0.Add(999999999), t0.Add(time.Second), t0.Add(-1)}
	case "time-zones":
		z := time.FixedZone("CST", 8*3600)
		return []interface{}{t0, t0.Add(time.Hour).In(z), t0.Add(2 * time.Hour), t0.Add(3 * time.Hour).In(z), t0.Add(4 * time.Hour), t0.Add(5 * time.Hour).In(z)}
	case "float-neighbours":
		a, b := 1700000000.0121, 8388609.3
		return []interface{}{a, math.Nextafter(a, math.Inf(1)), b, math.Nextafter(b, math.Inf(1)), 0.1, math.Nextafter(0.1, 1)}
	case "float-mixed":
		// integral and fractional keys whose texts interleave (9 < 10 by value, "10" < "5.5" < "9" by text)
		return []interface{}{9.0, 10.0, 5.5, 2.0, 1e19, 100.25}
	case "string":
		return []interface{}{"a", "a ", "A", "", "\"a\"", "é"}
	case "iface-colliding":
		// map[interface{}]string: distinct Go keys that denote the same number
		return []interface{}{1, 1.0, int8(1), 2.5, float32(3.5), uint16(7)} // one colliding number only: the error names it
	case "iface-distinct":
		return []interface{}{1, 2.0, int8(3), 2.5, float32(0.5), uint16(7)}
	case "ptr-colliding":
		// map[*int]string: distinct pointers to equal numbers
		p := func(i int) *int { return &i }
		return []interface{}{p(7), p(7), p(8), p(9), p(10), p(7)}
	case "ptr-distinct":
		p := func(i int) *int { return &i }
		return []interface{}{p(7), p(8), p(9), p(10), p(11), p(12)}
	default:
		return []interface{}{int64(0), int64(1), int64(-1), int64(1) << 53, int64(1)<<53 + 1, int64(-1) << 62}
	}
}

func checkHostMap(c *HostMapCase) *Outcome {
	keys := hostMapKeys(c.Kind)
	if c.N < 2 || c.N > len(keys) {
		return skip("bad-size")
	}
	keys = keys[:c.N]
	build := func() map[string]interface{} {
		kt := reflect.TypeOf(keys[0])
		if strings.HasPrefix(c.Kind, "iface-") {
			kt = reflect.TypeOf((*interface{})(nil)).Elem()
		}
		mt := reflect.MapOf(kt, reflect.TypeOf(""))
		mv := reflect.MakeMap(mt)
		env := map[string]interface{}{}
		for i, k := range keys {
			mv.SetMapIndex(reflect.ValueOf(k), reflect.ValueOf(fmt.Sprintf("v%d", i)))
			env[fmt.Sprintf("k%d", i)] = k
		}
		env["m"] = mv.Interface()
		return env
	}
	progs := []string{"string(m)", "string(len(m))", "string([m, m])", "string(m == m)"}
	look := ""
	for i := range keys {
		if i > 0 {
			look += " + \"/\" + "
		}
		look += fmt.Sprintf("get(m, k%d, \"none\")", i)
	}
	progs = append(progs, look, fmt.Sprintf("string(isset(m, k%d))", c.N-1), fmt.Sprintf("m[k%d]", c.N/2))
	for _, src := range progs {
		first := ""
		for rep := 0; rep < 24; rep++ {
			env := build() // a fresh Go map each time: its iteration order is random per map and per range
			var v *val.Val
			var err error
			closureBE := rep%2 == 1
			p := run.Guard(func() {
				if closureBE {
					var cl yae.Callable
					cl, err = yae.NewExpr().UseClosureCompiler().Compile(src, env)
					if err == nil {
						v, err = cl(env)
					}
				} else {
					v, err = yae.Eval(src, env)
				}
			})
			text := ""
			switch {
			case p != nil:
				text = "panic: " + p.Text
			case err != nil:
				text = "error: " + err.Error()
			default:
				text = v.String()
			}
			if rep == 0 {
				first = text
			} else if text != first {
				return bad("%s over a Go map with %d %s keys gives %q and then %q (only the map's iteration order can have changed)", src, c.N, c.Kind, first, text)
			}
		}
	}
	return ok(true, "host-map-iteration-order:"+c.Kind)
}

// ---- an engine that redefines a built-in operator (same name and position, other binding
// power / associativity) is that engine's own business: what other engines, engines created
// later and the one-shot entry points make of a source does not change

type OpRedefCase struct {
	Redef int  `json:"redef"`          // index into opRedefs
	Late  bool `json:"late,omitempty"` // the redefining engine has compiled something before it registers the operator
	Fresh bool `json:"fresh,omitempty"`
}

var opRedefs = [][]ref.Op{
	{{Name: "^", BP: 9, Fix: "infixl"}},
	{{Name: "*", BP: 6.5, Fix: "infixl"}},
	{{Name: "-", BP: 1, Fix: "prefix"}},
	{{Name: "+", BP: 8.5, Fix: "infixl"}, {Name: "==", BP: 9.5, Fix: "infixn"}},
	{{Name: "&&", BP: 2.5, Fix: "infixl"}, {Name: "!", BP: 2, Fix: "prefix"}},
	{{Name: "-", BP: 7, Fix: "infixr"}},
}

var opRedefProbes = []struct {
	src  string
	want string
}{
	{"2 ^ 3 ^ 2", "512"}, {"1 - 2 - 3", "-4"}, {"2 + 3 * 4", "14"}, {"-2 ^ 2", "4"}, {"1 + 1 == 2", "true"}, {"!true || true", "true"}, {"true || true && false", "true"}, {"10 - 4 - 3 * 2 + 1", "1"},
}

func checkOpRedef(c *OpRedefCase) *Outcome {
	if c.Redef < 0 || c.Redef >= len(opRedefs) {
		return skip("bad-index")
	}
	plain := yae.NewExpr()
	probe := func(when string) *Outcome {
		for _, pr := range opRedefProbes {
			for how, f := range map[string]func() (*val.Val, error){
				"yae.Eval": func() (*val.Val, error) { return yae.Eval(pr.src, nil) },
				"a fresh engine": func() (*val.Val, error) {
					cl, err := yae.NewExpr().Compile(pr.src, nil)
					if err != nil {
						return nil, err
					}
					return cl(nil)
				},
				"an engine created before": func() (*val.Val, error) {
					cl, err := plain.Compile(pr.src, nil)
					if err != nil {
						return nil, err
					}
					return cl(nil)
				},
			} {
				var v *val.Val
				var err error
				if p := run.Guard(func() { v, err = f() }); p != nil {
					return bad("%s of %s panicked %s: %s", how, pr.src, when, p.Text)
				}
				if err != nil {
					return bad("%s of %s fails %s: %v", how, pr.src, when, err)
				}
				if got := v.String(); got != pr.want {
					return bad("%s of %s yields %s %s; the built-in operator table gives %s (redefinition on another engine: %v)", how, pr.src, got, when, pr.want, opRedefs[c.Redef])
				}
			}
		}
		return nil
	}
	if o := probe("before any engine redefined an operator"); o != nil {
		return o
	}
	other := yae.NewExpr()
	if c.Fresh {
		other.UseClosureCompiler()
	}
	if c.Late {
		_, _ = other.Compile("1 + 1", nil)
	}
	_ = run.Guard(func() { other.RegisterOperator(run.YaeOps(opRedefs[c.Redef])...) })
	_ = run.Guard(func() { _, _ = other.Compile("1 + 1", nil) })
	_ = run.Guard(func() { _, _ = other.Compile("2 ^ 3 ^ 2 - 1 * 2", nil) })
	if o := probe("after another engine redefined " + opRedefs[c.Redef][0].Name + " for itself"); o != nil {
		return o
	}
	return ok(true, "operator-redefined-on-another-engine")
}

var c13opredef = Register(&Prop[OpRedefCase]{ID: "C13", Name: "operator-redefinition-elsewhere", Check: checkOpRedef})

// ---- nothing is written to standard output by converting and evaluating host data, whatever
// the numbers are (integers float64 cannot hold exactly, extremes of every width, float32)

type SilentCase struct {
	Env int `json:"env"`
}

var silentEnvs = []map[string]interface{}{
	{"v": int64(1<<53 + 1)},
	{"v": []int64{1, 1<<62 + 1, -(1<<53 + 1)}},
	{"v": ^uint64(0)},
	{"v": map[string]uint64{"a": math.MaxUint64, "b": 1<<63 + 1}},
	{"v": struct {
		N int64 `yae:"n"`
		U uint  `yae:"u"`
	}{math.MaxInt64, math.MaxUint32}},
	{"v": float32(0.1)},
	{"v": []int8{-128, 127}},
	{"v": uint64(1 << 63)},
	{"v": int64(math.MinInt64)},
	{"v": []interface{}{int64(1<<53 + 1), uint32(7), 2.5}},
	{"v": 1e308},
	{"v": map[int64]string{1<<53 + 1: "x"}},
}

func checkSilent(c *SilentCase) *Outcome {
	if c.Env < 0 || c.Env >= len(silentEnvs) {
		return skip("bad-index")
	}
	env := silentEnvs[c.Env]
	for _, src := range []string{"v", "string(v)", "[v]"} {
		var p *run.Panic
		out := run.CaptureStdout(func() {
			p = run.Guard(func() {
				_, _ = yae.Eval(src, env)
				_, _, _ = yae.Debug(src, env)
				for _, closureBE := range []bool{false, true} {
					e := yae.NewExpr()
					if closureBE {
						e.UseClosureCompiler()
					}
					if cl, err := e.Compile(src, env); err == nil {
						_, _ = cl(env)
						_, _ = cl(env)
					}
				}
			})
		})
		if p != nil {
			return bad("evaluating %s over host data %#v panicked: %s", src, env["v"], p.Text)
		}
		if out != "" {
			return bad("evaluating %s (no print in it) over host data %#v wrote to standard output: %q", src, env["v"], out)
		}
	}
	return ok(true, "silent-over-extreme-host-numbers")
}

var c13silent = Register(&Prop[SilentCase]{ID: "C13", Name: "silent-host-conversion", Check: checkSilent})

var c13hostmap = Register(&Prop[HostMapCase]{ID: "C13", Name: "host-map-order", Check: checkHostMap})

func TestC13(t *testing.T) {
	R.Rule = "histories of 3-25 operations over a pool of <= 4 expressions (results with multi-entry maps, objects, set operations, string(x), print), three engine instances (VM, closure, VM) and deliberately reused environment objects (one raw *types.Env, two raw *val.Env with different contents, host structs and maps): compile(expr, type object) on engine i; invoke(callable, value object); one-shot Eval; Debug; render an earlier result 16 times; one compile in three wraps the expression in a template calling the identity host function nest, and while nest runs inside an invocation another callable - possibly the very one being evaluated - is invoked to completion (an invocation nested in an evaluation, depth <= 2); oracle after every step: outcome = the reference evaluator on (expression, environment contents) alone, captured standard output = exactly the print lines, host values deep-equal to an identically built twin, every binding of the raw value environments reads as before, renderings never vary, an environment object used once is accepted again; plus eight precedence- / associativity-sensitive sources evaluated through Eval, a fresh engine and an engine created earlier, before and after ANOTHER engine registers an operator with the name and position of a built-in but another binding (six redefinitions, registered before or after that engine's first compilation): always the value the built-in table gives; plus host data with extreme numbers (integers float64 cannot hold exactly, the extremes of every width, float32) evaluated through Eval, Debug and Callables of both back ends with standard output captured: nothing is written; plus Go maps as host data (time keys within one second and in two zones, neighbouring floats, strings, large integers, interface{} and pointer keys that do / do not denote the same number; 2-6 entries) evaluated 24 times each through string / len / == / get / isset / subscript with identical outcomes; plus repeated fresh evaluation of single programs (6 x 2 back ends) with identical result text and output; plus one source text (13 templates over overloaded / polymorphic built-ins) compiled 2-5 times on ONE engine against environments that give its variables different types, each step compared with a fresh engine, and the same text parsed once (Expr.Parse) with that one tree compiled at every step (Expr.CompileExpr), closures compiled earlier re-invoked after every later compilation; plus six templates over a host-registered LAZY function (unless(c, a, b), forcing only the selected operand) whose deferred operands read the environment, compiled once per back end and invoked 2-6 times with different drawn environments, every result compared with the template's meaning over that invocation's environment alone; non-trivial = an environment object reused after another operation and a result with a multi-entry map or >= 2 results"
	R.Assume = []string{"ref.Eval and the characterised rendering of print"}
	reportKnown(t, "C13")
	runRegress(t, "C13")
	c13hostmap.Each(t, "host-map-kinds", func(yield func(*HostMapCase) bool) {
		for _, k := range []string{"time-subsecond", "time-zones", "float-neighbours", "float-mixed", "string", "int", "iface-colliding", "iface-distinct", "ptr-colliding", "ptr-distinct"} {
			for n := 2; n <= 6; n++ {
				if !yield(&HostMapCase{Kind: k, N: n}) {
					return
				}
			}
		}
	})
	c13opredef.Each(t, "operator-redefinitions", func(yield func(*OpRedefCase) bool) {
		for i := range opRedefs {
			for _, late := range []bool{false, true} {
				if !yield(&OpRedefCase{Redef: i, Late: late, Fresh: i%2 == 1}) {
					return
				}
			}
		}
	})
	c13silent.Each(t, "extreme-host-numbers", func(yield func(*SilentCase) bool) {
		for i := range silentEnvs {
			if !yield(&SilentCase{Env: i}) {
				return
			}
		}
	})
	c13.Run(t, budget(1500, 96000))
	c13repeat.Run(t, budget(1500, 96000))
	c13recompile.Run(t, budget(1500, 96000))
	c13lazy.Run(t, budget(1500, 96000))
}

var _ = types.Num
var _ = ref.BuiltIns

// ---- the same source text compiled on ONE engine against environments of different types

type RecompileCase struct {
	Template int   `json:"template"`
	Types    []int `json:"types"` // per step: which type the variables get
	Closure  bool  `json:"closure,omitempty"`
}

// templates that are well-typed for several types of x (and y: same type as x)
var recompileTemplates = []string{
	"len(x)", "x == y", "x != y", "string(x)", "if(x == y, len(x), 0 - 1)", "[x, y]", "[x: 1]", "len(x) + len(y)", "get([x], 0, y)",
	"if(len(x) > 1, x, y)", "{a: x, b: len(x)}", "string([x]) + string(y)", "print(x)",
}

var recompileTypes = []*m.Type{m.Str, m.List(m.Num), m.Map(m.Str, m.Num), m.List(m.Str), m.Num, m.Bool, m.List(m.List(m.Num)), m.Map(m.Num, m.Str)}

func recompileValue(t *m.Type, variant int) *m.Val {
	switch t.K {
	case m.TStr:
		return m.VStr([]string{"ab", "é"}[variant%2])
	case m.TNum:
		return m.VNum([]float64{2, 7}[variant%2])
	case m.TBool:
		return m.VBool(variant%2 == 0)
	case m.TList:
		return &m.Val{T: t, L: []*m.Val{recompileValue(t.El(), variant), recompileValue(t.El(), variant+1)}}
	case m.TMap:
		v := &m.Val{T: t}
		v.MapPut(recompileValue(t.Key(), variant), recompileValue(t.Val(), variant))
		return v
	}
	panic("recompileValue")
}

func genRecompileCase(t *rapid.T) *RecompileCase {
	c := &RecompileCase{Template: rapid.IntRange(0, len(recompileTemplates)-1).Draw(t, "template"), Closure: rapid.Bool().Draw(t, "closure")}
	n := rapid.IntRange(2, 5).Draw(t, "steps")
	for i := 0; i < n; i++ {
		c.Types = append(c.Types, rapid.IntRange(0, len(recompileTypes)-1).Draw(t, "type"))
	}
	return c
}

func checkRecompile(c *RecompileCase) *Outcome {
	if c.Template < 0 || c.Template >= len(recompileTemplates) {
		return skip("bad-template")
	}
	src := recompileTemplates[c.Template]
	shared := yae.NewExpr()
	if c.Closure {
		shared.UseClosureCompiler()
	}
	flips := 0
	prevAccepted := -1
	// the same text parsed ONCE (public Expr.Parse) and that one tree compiled at every step
	// (public Expr.CompileExpr): a compilation reads its input tree, it does not keep notes in it
	astEngine := yae.NewExpr()
	if c.Closure {
		astEngine.UseClosureCompiler()
	}
	var parsed ast.Expr
	if p := run.Guard(func() { parsed = astEngine.Parse(src) }); p != nil {
		return bad("harness: template %q does not parse: %s", src, p.Text)
	}
	type kept struct {
		cl   compiler.Closure
		vals map[string]*m.Val
		want string
		step int
		itp  bool
	}
	var earlier []kept
	// the same through the AST interpreter, which reads the checker's annotations while it
	// evaluates: its run-time environment carries the built-in functions itself
	itpEngine := yae.NewExpr().UseCompiler(interp.Interp)
	var parsedI ast.Expr
	if p := run.Guard(func() { parsedI = itpEngine.Parse(src) }); p != nil {
		return bad("harness: template %q does not parse: %s", src, p.Text)
	}
	itpEnv := func(vs map[string]*m.Val) *val.Env {
		ve := run.NewEngine(run.VMSwitch, nil).ValEnv(vs)
		for _, f := range fun.BuiltIn() {
			ve.RegisterFun(f)
		}
		return ve
	}
	for step, ti := range c.Types {
		ty := recompileTypes[ti%len(recompileTypes)]
		env := map[string]*m.Type{"x": ty, "y": ty}
		vals := map[string]*m.Val{"x": recompileValue(ty, 0), "y": recompileValue(ty, 1)}
		// the outcome of this step alone: the reference, cross-checked with a fresh engine
		pc := &ProgCase{E: nil, Env: env, Vals: vals}
		_ = pc
		fresh := yae.NewExpr()
		if c.Closure {
			fresh.UseClosureCompiler()
		}
		en := run.NewEngine(run.VMSwitch, nil)
		runOn := func(e *yae.Expr) (string, string) {
			var v *val.Val
			var err error
			var out string
			p := run.Guard(func() {
				var cl yae.Callable
				cl, err = e.Compile(src, run.TypeEnv(env))
				if err == nil {
					out = run.CaptureStdout(func() { v, err = cl(en.ValEnv(vals)) })
				}
			})
			switch {
			case p != nil:
				return "panic: " + p.Text, ""
			case err != nil:
				return "error", err.Error()
			}
			return "value " + v.String() + " | stdout " + out, ""
		}
		want, _ := runOn(fresh)
		got, gotErr := runOn(shared)
		runTreeEnv := func(cl compiler.Closure, ve *val.Env) string {
			var v *val.Val
			var out string
			if p := run.Guard(func() { out = run.CaptureStdout(func() { v = cl(ve) }) }); p != nil {
				return "error"
			}
			return "value " + v.String() + " | stdout " + out
		}
		runTree := func(cl compiler.Closure, vs map[string]*m.Val) string { return runTreeEnv(cl, en.ValEnv(vs)) }
		// interpreter route
		{
			var cli compiler.Closure
			gotI := ""
			if p := run.Guard(func() { cli = itpEngine.CompileExpr(parsedI, run.TypeEnv(env)) }); p != nil {
				gotI = "error"
			} else {
				gotI = runTreeEnv(cli, itpEnv(vals))
				earlier = append(earlier, kept{cli, vals, gotI, step, true})
			}
			if gotI != want {
				return bad("step %d (AST interpreter): compiling the parsed tree of %q (parsed once, compiled before against other types) against x,y : %s gives [%s]; a fresh engine on the text gives [%s]\n type sequence: %v", step, src, ty, gotI, want, c.Types)
			}
		}
		var cl compiler.Closure
		gotTree := ""
		if p := run.Guard(func() { cl = astEngine.CompileExpr(parsed, run.TypeEnv(env)) }); p != nil {
			gotTree = "error"
		} else {
			gotTree = runTree(cl, vals)
			earlier = append(earlier, kept{cl, vals, gotTree, step, false})
		}
		if gotTree != want {
			return bad("step %d: compiling the parsed tree of %q (parsed once, compiled before against other types) against x,y : %s gives [%s]; a fresh engine on the text gives [%s]\n type sequence: %v", step, src, ty, gotTree, want, c.Types)
		}
		// what was compiled earlier keeps behaving as it did
		for _, k := range earlier {
			now := ""
			if k.itp {
				now = runTreeEnv(k.cl, itpEnv(k.vals))
			} else {
				now = runTree(k.cl, k.vals)
			}
			if now != k.want {
				return bad("after step %d the closure compiled at step %d from the same parsed tree of %q gives [%s], it gave [%s]\n type sequence: %v", step, k.step, src, now, k.want, c.Types)
			}
		}
		if got != want {
			return bad("step %d: compiling %q against x,y : %s on an engine that compiled the same text before gives [%s %s]; a fresh engine gives [%s]\n type sequence: %v", step, src, ty, got, gotErr, want, c.Types)
		}
		if strings.HasPrefix(want, "value") {
			if prevAccepted >= 0 && prevAccepted != ti {
				flips++
			}
			prevAccepted = ti
		}
	}
	return ok(flips > 0, "recompile-same-text-other-types")
}

var c13recompile = Register(&Prop[RecompileCase]{ID: "C13", Name: "recompile-other-env", Gen: genRecompileCase, Check: checkRecompile})
