package props

import (
	"fmt"
	"math"
	"testing"

	"github.com/goghcrow/yae/conv"
	"github.com/goghcrow/yae/val"
	"pgregory.net/rapid"

	"verif/gen"
	m "verif/model"
	"verif/run"
)

// C18 — equality, map-key identity, set membership and rendering agree.

type PairCase struct {
	V    *m.Val `json:"v"`
	W    *m.Val `json:"w"`
	Rel  string `json:"rel"`            // copy | permuted | leaf-changed | unrelated
	Host bool   `json:"host,omitempty"` // values go through conv (Go host data) instead of the value constructors
	// v is built with sub-values that read alike being ONE value reachable several times
	// (w never is): the two ways of building one value must not be distinguishable
	ShareV bool `json:"sharev,omitempty"`
	// w is assembled step by step (containers attached empty, filled afterwards) with the value
	// under construction rendered after every step
	StepW bool `json:"stepw,omitempty"`
}

// dupParts makes sub-values repeat: a list gets a copy of one of its elements appended, map
// values and object fields of one type are made alike.
func dupParts(t *rapid.T, v *m.Val) *m.Val {
	n := &m.Val{T: v.T, N: v.N, S: v.S, B: v.B, Tm: v.Tm, Fn: v.Fn}
	for _, x := range v.L {
		n.L = append(n.L, dupParts(t, x))
	}
	for _, e := range v.M {
		n.M = append(n.M, m.Entry{K: e.K, V: dupParts(t, e.V)})
	}
	if v.P != nil {
		n.P = dupParts(t, v.P)
	}
	switch v.T.K {
	case m.TList:
		if len(n.L) > 0 && rapid.Bool().Draw(t, "duplist") {
			n.L = append(n.L, n.L[rapid.IntRange(0, len(n.L)-1).Draw(t, "dupi")])
		}
	case m.TMap:
		if len(n.M) > 1 && rapid.Bool().Draw(t, "dupmap") {
			n.M[len(n.M)-1].V = n.M[0].V
		}
	case m.TObj:
		for i := 1; i < len(n.L); i++ {
			if m.Equal(n.L[i].T, n.L[0].T) && n.L[i].T.OrderString() == n.L[0].T.OrderString() && rapid.Bool().Draw(t, "dupfield") {
				n.L[i] = n.L[0]
			}
		}
	}
	return n
}

func leaves(v *m.Val, path string, out *[]string) {
	switch v.T.K {
	case m.TNum, m.TStr, m.TBool, m.TTime:
		*out = append(*out, path)
	case m.TList, m.TObj:
		for i, x := range v.L {
			leaves(x, fmt.Sprintf("%s/%d", path, i), out)
		}
	case m.TMap:
		for i, e := range v.M {
			leaves(e.V, fmt.Sprintf("%s/%d", path, i), out)
		}
	case m.TMaybe:
		if v.P != nil {
			leaves(v.P, path+"/p", out)
		}
	}
}

func changeLeaf(t *rapid.T, v *m.Val, path string, cur string) *m.Val {
	if cur == path {
		switch v.T.K {
		case m.TNum:
			x := float64(v.N)
			alts := []float64{x + 1, x * 2, -x, x + 0.5, 9007199254740994, 9223372036854775808, 1e19, 1e20, 3}
			for {
				y := alts[rapid.IntRange(0, len(alts)-1).Draw(t, "numalt")]
				if math.Abs(y-x) > 1e-6 && !math.IsInf(y, 0) {
					return m.VNum(y)
				}
			}
		case m.TStr:
			return m.VStr(v.S + pick2(t, []string{"x", "\"", "\\", " ", "é", "\n"}))
		case m.TBool:
			return m.VBool(!v.B)
		case m.TTime:
			tv := *v.Tm
			tv.Unix += int64(pick2(t, []int{1, -1, 3600, 86400}))
			return m.VTime(tv)
		}
		return v
	}
	n := &m.Val{T: v.T, N: v.N, S: v.S, B: v.B, Tm: v.Tm, Fn: v.Fn}
	for i, x := range v.L {
		n.L = append(n.L, changeLeaf(t, x, path, fmt.Sprintf("%s/%d", cur, i)))
	}
	for i, e := range v.M {
		n.M = append(n.M, m.Entry{K: e.K, V: changeLeaf(t, e.V, path, fmt.Sprintf("%s/%d", cur, i))})
	}
	if v.P != nil {
		n.P = changeLeaf(t, v.P, path, cur+"/p")
	}
	return n
}

func genPairCase(t *rapid.T) *PairCase {
	zones := rapid.IntRange(0, 3).Draw(t, "zones") == 0
	ty := gen.Type(t, gen.TypeOpt{Depth: rapid.IntRange(1, 4).Draw(t, "depth"), Maybe: true, MaxFields: 5, MaybeInFields: true}).FixKeys()
	o := gen.ValOpt{MaxLen: 3, Clear: true, Zones: zones}
	c := &PairCase{V: gen.Value(t, ty, o)}
	if rapid.IntRange(0, 2).Draw(t, "dupparts") == 0 {
		c.V = dupParts(t, c.V)
		c.ShareV = rapid.Bool().Draw(t, "sharev")
	}
	if rapid.IntRange(0, 9).Draw(t, "imitate") == 0 {
		// two different values of one type whose texts coincide once strings are written without
		// quotes or escapes: a string holding the container's own separator
		a, b := gen.Str(t), gen.Str(t)
		k1, k2 := "k", "k2"
		ls := func(xs ...string) *m.Val {
			v := &m.Val{T: m.List(m.Str)}
			for _, x := range xs {
				v.L = append(v.L, m.VStr(x))
			}
			return v
		}
		switch rapid.IntRange(0, 4).Draw(t, "imitation") {
		case 0:
			c.V, c.W = ls(a+", "+b), ls(a, b)
		case 1:
			c.V = &m.Val{T: m.List(m.List(m.Str)), L: []*m.Val{ls(a + "], [" + b)}}
			c.W = &m.Val{T: m.List(m.List(m.Str)), L: []*m.Val{ls(a), ls(b)}}
		case 2:
			c.V = m.VMap(m.Str, m.Str, m.Entry{K: m.VStr(k1), V: m.VStr(a + ", " + k2 + ": " + b)})
			c.W = m.VMap(m.Str, m.Str, m.Entry{K: m.VStr(k1), V: m.VStr(a)}, m.Entry{K: m.VStr(k2), V: m.VStr(b)})
		case 3:
			c.V, c.W = ls(a+"\", \""+b), ls(a, b)
		default:
			c.V = &m.Val{T: m.List(m.Maybe(m.Str)), L: []*m.Val{m.VJust(m.Str, m.VStr(a+"), Just("+b))}}
			c.W = &m.Val{T: m.List(m.Maybe(m.Str)), L: []*m.Val{m.VJust(m.Str, m.VStr(a)), m.VJust(m.Str, m.VStr(b))}}
		}
		c.Rel = "separator-in-string"
		c.Host = rapid.Bool().Draw(t, "host")
		if c.Host {
			c.V, c.W = c.V.Conform(nil), c.W.Conform(nil)
		}
		return c
	}
	if rapid.IntRange(0, 11).Draw(t, "interleave") == 0 {
		// one map, its entries supplied in two orders; the keys are numbers whose texts interleave
		// with their values (9 < 10, "10" < "5.5" < "9"), integral and fractional, small and beyond int64
		pool := []float64{9, 10, 5.5, 2, 100.25, 1e19, 1, 33, 4.75, -3}
		n := rapid.IntRange(3, 6).Draw(t, "nkeys")
		seen := map[float64]bool{}
		v := &m.Val{T: m.Map(m.Num, m.Str)}
		for len(v.M) < n {
			k := pool[rapid.IntRange(0, len(pool)-1).Draw(t, "key")]
			if seen[k] {
				continue
			}
			seen[k] = true
			v.M = append(v.M, m.Entry{K: m.VNum(k), V: m.VStr(gen.Str(t))})
		}
		w := &m.Val{T: v.T}
		for i := len(v.M) - 1; i >= 0; i-- {
			w.M = append(w.M, v.M[i])
		}
		c.V, c.W, c.Rel = v, w, "permuted"
		c.Host = rapid.Bool().Draw(t, "host")
		return c
	}
	switch rapid.IntRange(0, 5).Draw(t, "rel") {
	case 0:
		c.Rel, c.W = "copy", c.V
	case 1, 2:
		c.Rel, c.W = "permuted", shuffleEntries(t, gen.PermuteVal(t, c.V))
	case 3, 4:
		var ls []string
		leaves(c.V, "", &ls)
		if len(ls) == 0 {
			c.Rel, c.W = "copy", c.V
		} else {
			c.Rel = "leaf-changed"
			c.W = changeLeaf(t, c.V, ls[rapid.IntRange(0, len(ls)-1).Draw(t, "leaf")], "")
			if rapid.Bool().Draw(t, "alsopermute") {
				c.W = gen.PermuteVal(t, c.W)
			}
		}
	default:
		c.Rel, c.W = "unrelated", gen.Value(t, ty, o)
	}
	c.Host = run.Hostable(ty) && rapid.Bool().Draw(t, "host")
	if c.Host {
		c.V, c.W = c.V.Conform(nil), c.W.Conform(nil)
	}
	c.StepW = !c.Host && rapid.IntRange(0, 2).Draw(t, "stepw") == 0
	return c
}

// shuffleEntries reverses map insertion orders (another supply order).
func shuffleEntries(t *rapid.T, v *m.Val) *m.Val {
	n := &m.Val{T: v.T, N: v.N, S: v.S, B: v.B, Tm: v.Tm, Fn: v.Fn}
	for _, x := range v.L {
		n.L = append(n.L, shuffleEntries(t, x))
	}
	for i := len(v.M) - 1; i >= 0; i-- {
		n.M = append(n.M, m.Entry{K: v.M[i].K, V: shuffleEntries(t, v.M[i].V)})
	}
	if v.P != nil {
		n.P = shuffleEntries(t, v.P)
	}
	return n
}

func zonesDiffer(a, b *m.Val) bool {
	var ta, tb []*m.TimeV
	var w func(v *m.Val, out *[]*m.TimeV)
	w = func(v *m.Val, out *[]*m.TimeV) {
		if v == nil {
			return
		}
		if v.T.K == m.TTime {
			*out = append(*out, v.Tm)
		}
		for _, x := range v.L {
			w(x, out)
		}
		for _, e := range v.M {
			w(e.K, out)
			w(e.V, out)
		}
		w(v.P, out)
	}
	w(a, &ta)
	w(b, &tb)
	for _, x := range ta {
		for _, y := range tb {
			if x.Go().Equal(y.Go()) && !m.SameZone(*x, *y) {
				return true
			}
		}
	}
	return false
}

func toYae(c *PairCase, v *m.Val) (*val.Val, error) {
	if c.Host {
		return conv.ValOf(run.GoValue(v).Interface())
	}
	if c.ShareV && v == c.V {
		return run.ToYaeValShared(v, nil), nil
	}
	if c.StepW && v == c.W {
		return run.ToYaeValIncremental(v, nil), nil
	}
	return run.ToYaeVal(v, nil), nil
}

func evalBool(en *run.Engine, src string, env map[string]*m.Type, vals map[string]*m.Val) (bool, error) {
	o := en.RunSrc(src, env, vals)
	if !o.Compiled() || o.Failed() {
		return false, fmt.Errorf("%s: %s %v %v %v", src, o.FailText(), o.CompileErr, o.CompilePan, o.RunPan)
	}
	mv, probs := run.FromYaeVal(o.Val, m.Bool)
	if len(probs) > 0 {
		return false, fmt.Errorf("%s: %v", src, probs)
	}
	return mv.B, nil
}

func checkPair(c *PairCase) *Outcome {
	if c.V.T.HasKind(m.TTime) && zonesDiffer(c.V, c.W) {
		if excludedFamily("equal-instants-different-zones") {
			return skip("known:equal-instants-different-zones")
		}
	}
	eq := m.ValEqual(c.V, c.W)
	yv, err1 := toYae(c, c.V)
	yw, err2 := toYae(c, c.W)
	if err1 != nil || err2 != nil {
		return bad("host conversion failed: %v %v", err1, err2)
	}
	desc := fmt.Sprintf("v=%s : %s | w=%s : %s | rel=%s host=%v", c.V.Render(), c.V.T.OrderString(), c.W.Render(), c.W.T.OrderString(), c.Rel, c.Host)
	var ge, ge2, rv, rw bool
	var sv, sw string
	if p := run.Guard(func() {
		ge, ge2 = val.Equals(yv, yw), val.Equals(yw, yv)
		rv, rw = val.Equals(yv, yv), val.Equals(yw, yw)
		sv, sw = yv.String(), yw.String()
	}); p != nil {
		return bad("Equals / String panicked: %s (%s)", p.Text, desc)
	}
	if !rv || !rw {
		return bad("equality is not reflexive (%s)", desc)
	}
	if ge != ge2 {
		return bad("equality is not symmetric: %v / %v (%s)", ge, ge2, desc)
	}
	if ge != eq {
		return bad("Equals = %v, the values are equal: %v (%s)", ge, eq, desc)
	}
	for i := 0; i < 8; i++ {
		var again string
		if p := run.Guard(func() { again = yv.String() }); p != nil || again != sv {
			return bad("rendering one value twice gives %q and %q (%s)", sv, again, desc)
		}
	}
	if (sv == sw) != eq {
		return bad("values equal: %v, but renderings %q and %q (%s)", eq, sv, sw, desc)
	}
	if c.V.T.IsPrim() {
		var kv, kw val.Key
		if p := run.Guard(func() { kv, kw = yv.Key(), yw.Key() }); p != nil {
			return bad("Key panicked: %s (%s)", p.Text, desc)
		}
		if (kv == kw) != eq {
			return bad("values equal: %v, but map keys %q and %q (%s)", eq, kv.String(), kw.String(), desc)
		}
	}
	// the language-level notions, on two back ends
	env := map[string]*m.Type{"v": c.V.T, "w": c.W.T}
	vals := map[string]*m.Val{"v": c.V, "w": c.W}
	litClass := false
	for _, be := range []run.Backend{run.VMSwitch, run.Closure} {
		en := run.NewEngine(be, nil)
		tests := []struct {
			src  string
			want bool
		}{
			{"len(union([v], [w])) == 1", eq},
			{"len(intersect([v], [w])) == 1", eq},
			{"len(diff([v], [w])) == 0", eq},
			// both values on one side, the other side an empty list of their type (computed: the
			// empty literal has another type), or the list itself
			{"len(union(diff([v], [v]), [v, w])) == 1", eq},
			{"len(union([v, w], diff([v], [v]))) == 1", eq},
			{"len(diff([v, w], diff([v], [v]))) == 1", eq},
			{"len(union([v, w], [v, w])) == 1", eq},
			{"len(intersect([v, w], [w, v])) == 1", eq},
			{"len(intersect([v, w], diff([v], [v]))) == 0", true},
			{"string(v) == string(w) || !(" + fmt.Sprint(eq) + ")", true}, // equal values convert to the same text
		}
		if c.V.T.IsPrim() {
			tests = append(tests, struct {
				src  string
				want bool
			}{"isset([v: 1], w)", eq})
		}
		switch c.V.T.K {
		case m.TNum, m.TStr, m.TBool, m.TTime, m.TList, m.TMap:
			tests = append(tests, struct {
				src  string
				want bool
			}{"v == w", eq}, struct {
				src  string
				want bool
			}{"v != w", !eq})
		}
		// both values written as literals inside ONE expression (object fields in the order each
		// value has them): the same relations
		if lv, lw := gen.LitOf(c.V), gen.LitOf(c.W); lv != nil && lw != nil && !c.Host {
			LV, LW := m.Print(gen.Parenthesize(lv), m.PrintOpt{}), m.Print(gen.Parenthesize(lw), m.PrintOpt{})
			litClass = true
			tests = append(tests, struct {
				src  string
				want bool
			}{"len(union([" + LV + "], [" + LW + "])) == 1", eq}, struct {
				src  string
				want bool
			}{"len(diff([" + LV + ", " + LW + "], [" + LW + "])) == 0", eq}, struct {
				src  string
				want bool
			}{"string(" + LV + ") == string(" + LW + ") || !(" + fmt.Sprint(eq) + ")", true}, struct {
				src  string
				want bool
			}{"string([" + LV + ", " + LW + "]) == string([" + LW + ", " + LV + "]) || !(" + fmt.Sprint(eq) + ")", true}, struct {
				src  string
				want bool
			}{"[" + LV + "] == [" + LW + "]", eq})
		}
		for _, tc := range tests {
			en2 := run.NewEngine(be, nil)
			if c.ShareV {
				en2.Shared = map[string]bool{"v": true}
			}
			_ = en
			got, err := evalBool(en2, tc.src, env, vals)
			if err != nil {
				return bad("%s: evaluation failed: %v (%s)", be, err, desc)
			}
			if got != tc.want {
				return bad("%s: %s is %v; the values are equal: %v (%s)", be, tc.src, got, eq, desc)
			}
		}
	}
	classes := []string{"rel:" + c.Rel, fmt.Sprintf("equal:%v", eq)}
	if c.ShareV && !c.Host {
		classes = append(classes, "v-with-shared-sub-values")
	}
	if c.Host {
		classes = append(classes, "via-host-data")
	}
	if litClass {
		classes = append(classes, "both-values-as-literals-in-one-expression")
	}
	if c.StepW && !c.Host {
		classes = append(classes, "w-assembled-step-by-step-and-rendered-in-between")
	}
	big := false
	var w func(v *m.Val)
	w = func(v *m.Val) {
		if v == nil {
			return
		}
		if v.T.K == m.TNum && math.Abs(float64(v.N)) >= 9007199254740992 {
			big = true
		}
		for _, x := range v.L {
			w(x)
		}
		for _, e := range v.M {
			w(e.K)
			w(e.V)
		}
		w(v.P)
	}
	w(c.V)
	w(c.W)
	if big {
		classes = append(classes, "number>=2^53")
	}
	reprDiffers := c.V.T.OrderString() != c.W.T.OrderString() || c.V.Render() != c.W.Render() || c.Rel == "permuted"
	return ok((eq && reprDiffers && c.Rel == "permuted") || c.Rel == "leaf-changed" || c.Rel == "separator-in-string", classes...)
}

var c18 = Register(&Prop[PairCase]{ID: "C18", Name: "pairs", Gen: genPairCase, Check: checkPair})

// ---- all pairs of the numeric pool: distinct numbers never render alike or collide as keys

type NumPair struct {
	A m.F64 `json:"a"`
	B m.F64 `json:"b"`
}

func checkNumPair(c *NumPair) *Outcome {
	a, b := float64(c.A), float64(c.B)
	va, vb := val.Num(a), val.Num(b)
	same := a == b || (math.IsNaN(a) && math.IsNaN(b))
	var sa, sb string
	var ka, kb val.Key
	if p := run.Guard(func() { sa, sb, ka, kb = va.String(), vb.String(), va.Key(), vb.Key() }); p != nil {
		return bad("rendering a number panicked: %s", p.Text)
	}
	if !same {
		if sa == sb {
			return bad("distinct numbers %s and %s both render as %q", m.FmtF(a), m.FmtF(b), sa)
		}
		if ka == kb {
			return bad("distinct numbers %s and %s collide as map key %q", m.FmtF(a), m.FmtF(b), ka.String())
		}
	} else if sa != sb || ka != kb {
		return bad("one number %s renders as %q / %q", m.FmtF(a), sa, sb)
	}
	big := math.Abs(a) >= 9007199254740992 || math.Abs(b) >= 9007199254740992
	return ok(!same && big, "numeric-pair")
}

var c18nums = Register(&Prop[NumPair]{ID: "C18", Name: "numeric-pool-pairs", Check: checkNumPair})

func eachNumPair(yield func(*NumPair) bool) {
	pool := append([]float64(nil), gen.NumPool...)
	pool = append(pool, math.Inf(1), math.Inf(-1), 1e23, 9.999999999999999e22, 4611686018427387904, 9223372036854774784, 18446744073709551616, -1e19, -1e20, 1e308, 2e308/2)
	// neighbouring doubles with a fractional part, at magnitudes where one ulp is far above and
	// far below the comparison tolerance
	for _, base := range []float64{0.1, 1.5, 1023.3, 8388609.3, 123456789.25, 1700000000.0121, 4503599627370497.5} {
		x := base
		for i := 0; i < 3; i++ {
			pool = append(pool, x, -x)
			x = math.Nextafter(x, math.Inf(1))
		}
	}
	for _, a := range pool {
		for _, b := range pool {
			if !yield(&NumPair{A: m.F64(a), B: m.F64(b)}) {
				return
			}
		}
	}
}

func TestC18(t *testing.T) {
	R.Rule = "pairs (v, w) of one type (primitives, nested lists / maps / objects / optionals to depth 4): w is a copy, a field-order and insertion-order permutation, v with one leaf changed to a clearly different value (numbers identical or differing by > 1e-6, across 2^53 and 2^63; strings needing escapes; instants, several zones), unrelated, or two different values whose texts coincide once strings are written without quotes (a string holding the container's separator); built through the value constructors (one case in six with repeated sub-values being one shared value on the v side only) or as Go host data through conv; one case in six assembles w step by step (containers attached empty and filled afterwards through ListVal.Add / MapVal.Put, the value under construction rendered after every step); oracle: agreement of val.Equals, Val.String equality, Val.Key equality, isset([v:1], w), union / intersect / diff cardinalities (the two values on opposite sides, on one side against an empty list of their type, against themselves), == / != and string(v) == string(w) for equal values, the same relations with both values written as literals inside one expression (object fields in each value's own order), labelled by the model's own equality; reflexivity and symmetry, the rendering of one value repeated eight times; plus all pairs of the boundary numeric pool (incl. neighbouring doubles with a fractional part at seven magnitudes) for distinct renderings and keys; non-trivial = a model-equal pair in another representation, or a pair differing in exactly one leaf"
	R.Assume = []string{"model.ValEqual (harness) labels pairs; numbers inside a pair are identical or clearly different (the property's own restriction)"}
	reportKnown(t, "C18")
	runRegress(t, "C18")
	c18nums.Each(t, "numeric-pool-all-pairs", eachNumPair)
	c18.Run(t, budget(6000, 480000))
}
