//go:build verif

package props

import (
	"fmt"

	yae "github.com/goghcrow/yae"
	"github.com/goghcrow/yae/types"
	"github.com/goghcrow/yae/val"
	"pgregory.net/rapid"
)

// ---- a host-registered lazy function whose deferred operands read the environment: one Callable
// invoked with a sequence of different environments. The result of every invocation depends on the
// environment of THAT invocation only (nothing computed for an earlier one may be kept).

type LazyEnvCase struct {
	Template int       `json:"template"`
	Closure  bool      `json:"closure"`
	Envs     []LazyEnv `json:"envs"` // 2..6 invocations, in this order
}

type LazyEnv struct {
	Off bool  `json:"off"`
	P   bool  `json:"p"`
	N   int64 `json:"n"`
	M   int64 `json:"m"`
}

// unless(c, a, b) = b when c, else a; only the selected operand is forced
var lazyEnvTemplates = []struct {
	src  string
	want func(e LazyEnv) float64
}{
	{"unless(off, n * 2, 0 - n)", func(e LazyEnv) float64 { return unlessF(e.Off, float64(e.N*2), float64(-e.N)) }},
	{"unless(off, n, m) + unless(p, m, n)", func(e LazyEnv) float64 {
		return unlessF(e.Off, float64(e.N), float64(e.M)) + unlessF(e.P, float64(e.M), float64(e.N))
	}},
	{"unless(off, unless(p, n, m), m + 1)", func(e LazyEnv) float64 {
		return unlessF(e.Off, unlessF(e.P, float64(e.N), float64(e.M)), float64(e.M+1))
	}},
	{"n + unless(p, n * m, 7)", func(e LazyEnv) float64 { return float64(e.N) + unlessF(e.P, float64(e.N*e.M), 7) }},
	{"if(off, unless(p, n, m), unless(p, m, n))", func(e LazyEnv) float64 {
		if e.Off {
			return unlessF(e.P, float64(e.N), float64(e.M))
		}
		return unlessF(e.P, float64(e.M), float64(e.N))
	}},
	{"len([unless(off, n, m), unless(off, m, n)]) + unless(off, m, n)", func(e LazyEnv) float64 { return 2 + unlessF(e.Off, float64(e.M), float64(e.N)) }},
}

func unlessF(c bool, a, b float64) float64 {
	if c {
		return b
	}
	return a
}

func genLazyEnvCase(t *rapid.T) *LazyEnvCase {
	c := &LazyEnvCase{Template: rapid.IntRange(0, len(lazyEnvTemplates)-1).Draw(t, "template"), Closure: rapid.Bool().Draw(t, "closure")}
	n := rapid.IntRange(2, 6).Draw(t, "ninvocations")
	for i := 0; i < n; i++ {
		c.Envs = append(c.Envs, LazyEnv{Off: rapid.Bool().Draw(t, "off"), P: rapid.Bool().Draw(t, "p"),
			N: int64(rapid.IntRange(-50, 50).Draw(t, "n")), M: int64(rapid.IntRange(-50, 50).Draw(t, "m"))})
	}
	return c
}

func checkLazyEnv(c *LazyEnvCase) *Outcome {
	if c.Template < 0 || c.Template >= len(lazyEnvTemplates) || len(c.Envs) == 0 {
		return skip("bad-template")
	}
	tpl := lazyEnvTemplates[c.Template]
	e := yae.NewExpr()
	if c.Closure {
		e.UseClosureCompiler()
	}
	e.RegisterFun(val.LazyFun(types.Fun("unless", []*types.Type{types.Bool, types.Num, types.Num}, types.Num), func(args ...*val.Val) *val.Val {
		if args[0].Fun().Call().Bool().V {
			return args[2].Fun().Call()
		}
		return args[1].Fun().Call()
	}))
	mkEnv := func(le LazyEnv) map[string]interface{} {
		return map[string]interface{}{"off": le.Off, "p": le.P, "n": le.N, "m": le.M}
	}
	var cl yae.Callable
	var err error
	if p := guardConv(func() { cl, err = e.Compile(tpl.src, mkEnv(c.Envs[0])) }); p != nil || err != nil {
		return bad("harness: template %q does not compile: %v %v", tpl.src, p, err)
	}
	distinct := map[float64]bool{}
	for i, le := range c.Envs {
		var v *val.Val
		var ierr error
		if p := guardConv(func() { v, ierr = cl(mkEnv(le)) }); p != nil {
			return bad("invocation %d of %q panicked: %s", i+1, tpl.src, p.Text)
		}
		if ierr != nil {
			return bad("invocation %d of %q with %+v failed: %v", i+1, tpl.src, le, ierr)
		}
		want := tpl.want(le)
		distinct[want] = true
		if v == nil || v.Type.Kind != types.KNum || v.Num().V != want {
			return bad("invocation %d of one Callable for %q with environment %+v gives %v; the source over this environment alone gives %v (earlier environments: %+v)", i+1, tpl.src, le, v, want, c.Envs[:i])
		}
	}
	return ok(len(distinct) >= 2, fmt.Sprintf("lazy-host-function:%d-invocations", len(c.Envs)))
}

var c13lazy = Register(&Prop[LazyEnvCase]{ID: "C13", Name: "lazy-host-function-across-invocations", Gen: genLazyEnvCase, Check: checkLazyEnv})
