package props

import (
	"fmt"
	"testing"

	"github.com/goghcrow/yae/compiler"
	"github.com/goghcrow/yae/parser/ast"
	"github.com/goghcrow/yae/val"
	"github.com/goghcrow/yae/vm"

	"verif/gen"
	m "verif/model"
	"verif/run"
)

// C11 — emitted bytecode is structurally safe and can only run forward.

// compileCapturing compiles src on a fresh engine and returns the program the
// VM compiler emitted for it.
func compileCapturing(c *ProgCase, src string) (prog *vm.VerifProgram, err error, p *run.Panic) {
	en := run.NewEngine(run.VMSwitch, c.Extra)
	en.E.UseCompiler(func(expr ast.Expr, env *val.Env) compiler.Closure {
		pr := vm.VerifCompile(expr, env)
		prog = &pr
		return vm.Compile(expr, env)
	})
	_, err, p = en.CompileSrc(src, c.Env)
	return
}

// compileCapturingAST: the same from the desugared tree (capacity classes; see runBackendsAST).
func compileCapturingAST(c *ProgCase, core *m.Expr) (prog *vm.VerifProgram, err error) {
	en := run.NewEngine(run.VMSwitch, c.Extra)
	en.E.UseCompiler(func(expr ast.Expr, env *val.Env) compiler.Closure {
		pr := vm.VerifCompile(expr, env)
		prog = &pr
		return vm.Compile(expr, env)
	})
	if p := run.Guard(func() { en.E.CompileExpr(run.ToAst(core), run.TypeEnv(c.Env)) }); p != nil {
		err = fmt.Errorf("%s", p.Text)
	}
	return
}

func verifyCase(c *ProgCase, r *CaseRun) *Outcome {
	var prog *vm.VerifProgram
	var err error
	var p *run.Panic
	if r.Core.Size() > 3*astModeFrom {
		prog, err = compileCapturingAST(c, r.Core)
	} else {
		prog, err, p = compileCapturing(c, r.Src)
	}
	if p != nil {
		return bad("Compile panicked: %s\n src: %s", p.Text, clip(r.Src))
	}
	if err != nil {
		if capacityExceeded(r.Core) {
			return skip("vm-capacity-exceeded")
		}
		return bad("accepted program does not compile to bytecode: %v\n src: %s", err, clip(r.Src))
	}
	if prog == nil {
		return bad("harness: compiler hook not invoked")
	}
	st := &run.BCStats{}
	if verr := run.VerifyProgram(*prog, st); verr != nil {
		return bad("emitted bytecode is unsafe: %v\n src: %s", verr, clip(r.Src))
	}
	classes := []string{}
	if st.Jumps > 0 {
		classes = append(classes, "has-jump")
	}
	if st.Thunks > 0 {
		classes = append(classes, "has-thunk")
	}
	if st.Bodies > 2 {
		classes = append(classes, "nested-or-many-thunk-bodies")
	}
	if st.WideOperand {
		classes = append(classes, "operand>255")
	}
	if st.MaxDepth > 42 {
		classes = append(classes, "stack-depth>42")
	}
	if st.Unreachable > 0 {
		classes = append(classes, "has-unreachable-instruction")
	}
	return ok(st.Jumps > 0 || st.Thunks > 0 || st.WideOperand, classes...)
}

func checkC11(c *ProgCase) *Outcome {
	r := refRun(c)
	if r.RefErr != nil {
		return skip("harness:reference-rejects-generated-program")
	}
	return verifyCase(c, r)
}

func checkC11Op(c *OpCase) *Outcome {
	pc := opProg(c)
	r := refRun(pc)
	if r.RefErr != nil {
		return skip("harness:reference-rejects")
	}
	return verifyCase(pc, r)
}

func checkC11Stress(s *StressCase) *Outcome {
	c := stressProg(s)
	r := refRun(c)
	if r.RefErr != nil {
		return bad("harness: stress program rejected by the reference: %v", r.RefErr)
	}
	o := verifyCase(c, r)
	if o.Err == nil && o.Skip == "" {
		o.Classes = append(o.Classes, "stress:"+s.Kind, fmt.Sprintf("stress-n:%d", s.N))
		o.Nontrivial = true
	}
	return o
}

// whatever yae's own pipeline accepts - programs mutated towards ill-typedness included (C05's
// catalogue: duplicate fields, mistyped operands, empty containers, user overloads) - compiles to
// bytecode that verifies; what it refuses is not this property's subject
func checkC11Accepted(c *TypingCase) *Outcome {
	pc := &c.ProgCase
	src := m.Print(pc.E, pc.Print)
	prog, err, p := compileCapturing(pc, src)
	if p != nil || err != nil || prog == nil {
		return ok(false, "refused-by-yae")
	}
	st := &run.BCStats{}
	if verr := run.VerifyProgram(*prog, st); verr != nil {
		return bad("emitted bytecode is unsafe: %v\n src: %s\n mutation: %s", verr, clip(src), c.Mutation)
	}
	cls := "accepted-unmutated"
	if c.Mutation != "" {
		cls = "accepted-after-mutation"
	}
	return ok(c.Mutation != "" && (st.Jumps > 0 || st.Thunks > 0 || len(prog.Code) > 8), cls)
}

var c11acc = Register(&Prop[TypingCase]{ID: "C11", Name: "whatever-compiles", Gen: genTypingCase, Check: checkC11Accepted})

var c11opt = gen.ProgOpt{Fuel: 5, Partial: true, Sugar: true, Maybe: true, Times: true, Harness: true, Poison: true, NonFinite: true}

var c11 = Register(&Prop[ProgCase]{ID: "C11", Name: "bytecode-verifier", Gen: genProgCase(c11opt, run.StdHarness), Check: checkC11})
var c11ops = Register(&Prop[OpCase]{ID: "C11", Name: "small-programs", Check: checkC11Op})
var c11stress = Register(&Prop[StressCase]{ID: "C11", Name: "stress", Check: checkC11Stress})

func TestC11(t *testing.T) {
	R.Rule = "accepted programs: all single applications of every built-in over small pools (exhaustive within the pools), random programs of fuel 5 with intrinsics, conditionals and harness-registered strict and lazy functions, and stress classes (literals with 43..600 and, thorough, 65 535 / 65 536 members, calls of strict and lazy host functions with 254..257 arguments, > 255 constants, conditionals whose arms exceed 255 bytes, nested thunks); plus programs mutated towards ill-typedness (C05's catalogue) whenever yae itself accepts them; oracle: bytecode verifier over the hook's (code, constants) and recursively every thunk body - complete decode into known instructions, operand range and kind, jump targets later and on a boundary, one stack depth per instruction on all paths, deferred arguments are thunk constants, exactly 1 at the final reachable RETURN, longest path <= #instructions; non-trivial = code with a jump, a thunk, or an operand > 255"
	R.Assume = []string{"the per-opcode stack effects in run/bcverify.go (DESIGN.md Appendix B)", "hook vm.VerifCompile returns the program vm.Compile would run"}
	reportKnown(t, "C11")
	runRegress(t, "C11")
	var big []int
	if Tier == "thorough" {
		big = []int{1000, 5000, 65535, 65536}
	}
	c11stress.Each(t, "stress-classes", eachStress(big))
	c11ops.Each(t, "single-applications", eachOpCase(false, 150))
	c11.Run(t, budget(10000, 480000))
	c11acc.Run(t, budget(4000, 200000))
}

var _ = m.Num
