package props

import (
	"fmt"
	"pgregory.net/rapid"
	"regexp"
	"strings"
	"testing"

	"github.com/goghcrow/yae"
	"github.com/goghcrow/yae/closure"
	"github.com/goghcrow/yae/debug"
	"github.com/goghcrow/yae/val"

	"verif/gen"
	m "verif/model"
	"verif/ref"
	"verif/run"
)

// C19 — debug evaluation reports the same result and the true intermediate values.

type term struct {
	src string
	col int // rune column of the term's own token + 1
	v   *m.Val
}

var c19harness = []ref.FunSig{run.SigTr, run.SigBoom, run.SigHsub, run.SigHpair, run.SigLzIf, run.SigLzAnd}

func checkC19(c *ProgCase) *Outcome {
	if run.HostableEnv(c.Env) && !hasFunEnv(c) {
		// host data has one field order per position: use values that say the same
		c = &ProgCase{E: c.E, Env: c.Env, Vals: conformAll(c.Vals), Extra: c.Extra, Ops: c.Ops, Print: c.Print, Stats: c.Stats}
	}
	r := refRun(c)
	if r.RefErr != nil {
		return skip("harness:reference-rejects-generated-program")
	}
	if s := domainSkip(r); s != "" {
		return skip(s)
	}
	if strings.Contains(r.Src, "\n") {
		return skip("multi-line-source")
	}
	// the reference's list of evaluated terms
	ev := ref.NewEvaluator(r.Checker, c.Vals, run.RefHarness(c.Extra))
	var want []term
	runes := []rune(r.Src)
	ev.OnTerm = func(e *m.Expr, v *m.Val) {
		want = append(want, term{src: string(runes[e.Start:e.End]), col: e.Own + 1, v: v})
	}
	wv, wf := ev.Eval(r.Core)

	// ---- (b) DebugCompile + Record through the hook
	en := run.NewEngine(run.Closure, c.Extra)
	if len(c.Ops) > 0 {
		en.E.RegisterOperator(run.YaeOps(c.Ops)...)
	}
	en.E.UseCompiler(closure.DebugCompile)
	callable, cerr, cp := en.CompileSrc(r.Src, c.Env)
	if cp != nil || cerr != nil {
		return bad("debug compilation failed: err=%v panic=%v\n src: %s", cerr, cp, r.Src)
	}
	rcd := debug.NewRecord()
	ve := en.ValEnv(c.Vals)
	ve.Dgb = rcd
	var res *val.Val
	var rerr error
	pan := run.Guard(func() { res, rerr = callable(ve) })
	failed := pan != nil || rerr != nil
	if failed != (wf != nil) {
		return bad("debug evaluation %s but normal evaluation by the rules %s\n src: %s\n env: %s", outcomeText(res, rerr, pan), expectText(&CaseRun{RefVal: wv, RefFail: wf}), r.Src, envSummary(c))
	}
	if !failed {
		got, probs := run.FromYaeVal(res, r.RefType)
		if len(probs) > 0 || got == nil || !m.Identical(got, wv) {
			return bad("debug evaluation yields %s, normal evaluation %s\n src: %s", renderVal(res), wv.Render(), r.Src)
		}
	}
	entries := rcd.VerifEntries()
	if len(entries) != len(want) {
		return bad("debug record has %d entries, %d terms were evaluated\n recorded: %s\n expected: %s\n src: %s\n env: %s", len(entries), len(want), fmtEntries(entries), fmtTerms(want), r.Src, envSummary(c))
	}
	for i, e := range entries {
		w := want[i]
		gv, probs := run.FromYaeVal(e.V, nil)
		if len(probs) > 0 || gv == nil {
			return bad("recorded value %d is malformed: %v", i, probs)
		}
		if !m.Identical(gv, w.v) {
			return bad("entry %d: recorded value %s, term %q evaluated to %s\n recorded: %s\n expected: %s\n src: %s", i, gv.Render(), w.src, w.v.Render(), fmtEntries(entries), fmtTerms(want), r.Src)
		}
		if e.Col != w.col {
			return bad("entry %d (%s = %s): attributed to column %d, the term's own token is at column %d\n recorded: %s\n expected: %s\n src: %s", i, w.src, w.v.Render(), e.Col, w.col, fmtEntries(entries), fmtTerms(want), r.Src)
		}
	}
	// ---- (c) rendering
	var report string
	if p := run.Guard(func() { report = rcd.Render(r.Src) }); p != nil {
		return bad("rendering the report failed: %s\n src: %s", p.Text, r.Src)
	}
	competing := false
	// shows: the report keeps the source as first line and shows every recorded value at its column
	shows := func(report, which string) *Outcome {
		lines := strings.Split(report, "\n")
		if lines[0] != r.Src {
			return bad("first line of %s is %q, the source is %q", which, lines[0], r.Src)
		}
		for _, e := range entries {
			text := e.V.String()
			if strings.ContainsAny(text, "\n\r") {
				// a value whose text has line breaks is shown on consecutive lines of its own, every
				// piece starting at the value's column
				pieces := multiLineSplit.Split(text, -1)
				shown := false
				for li := 1; li+len(pieces) <= len(lines) && !shown; li++ {
					all := true
					for k, pc := range pieces {
						lr, pr := []rune(lines[li+k]), []rune(pc)
						if len(pr) == 0 {
							continue
						}
						if e.Col-1+len(pr) > len(lr) || string(lr[e.Col-1:e.Col-1+len(pr)]) != pc {
							all = false
							break
						}
					}
					shown = all
				}
				if !shown {
					return bad("%s does not show the multi-line value %q at column %d\n report:\n%s", which, text, e.Col, report)
				}
				continue
			}
			tr := []rune(text)
			found := false
			for li, ln := range lines[1:] {
				lr := []rune(ln)
				if e.Col-1+len(tr) <= len(lr) && string(lr[e.Col-1:e.Col-1+len(tr)]) == text {
					found = true
					if li > 1 {
						competing = true
					}
					break
				}
			}
			if !found {
				return bad("%s does not show value %s at column %d\n report:\n%s", which, text, e.Col, report)
			}
		}
		return nil
	}
	if o := shows(report, "the report"); o != nil {
		return o
	}
	// ---- (d) every evaluation, not only the first: the same compiled closure with
	// the same record (cleared by DebugCompile when an evaluation starts) gives
	// the same entries and the same report again
	for round := 2; round <= 3; round++ {
		var res2 *val.Val
		var rerr2 error
		pan2 := run.Guard(func() { res2, rerr2 = callable(ve) })
		if (pan2 != nil || rerr2 != nil) != failed {
			return bad("debug evaluation %d of the same compiled expression %s, the first one %s\n src: %s", round, outcomeText(res2, rerr2, pan2), outcomeText(res, rerr, pan), r.Src)
		}
		again := rcd.VerifEntries()
		if len(again) != len(entries) {
			return bad("debug evaluation %d with the same record has %d entries, the first one %d\n recorded: %s\n first: %s\n src: %s", round, len(again), len(entries), fmtEntries(again), fmtEntries(entries), r.Src)
		}
		for i := range again {
			if again[i].Col != entries[i].Col || again[i].V.String() != entries[i].V.String() {
				return bad("debug evaluation %d with the same record: entry %d is %s at column %d, in the first evaluation %s at column %d\n src: %s", round, i, again[i].V.String(), again[i].Col, entries[i].V.String(), entries[i].Col, r.Src)
			}
		}
		var report2 string
		if p := run.Guard(func() { report2 = rcd.Render(r.Src) }); p != nil {
			return bad("rendering the report of evaluation %d failed: %s\n src: %s", round, p.Text, r.Src)
		}
		if report2 != report {
			return bad("report of evaluation %d differs from the first\n first:\n%s\n now:\n%s", round, report, report2)
		}
	}
	// ---- (a) the public Debug entry point agrees with Eval and the reference
	usesHarness := false
	r.Core.Walk(func(e *m.Expr) {
		if e.K == "call" {
			if run.IsHarnessName(e.Name) {
				usesHarness = true
			}
		}
	})
	apiChecked := false
	if run.HostableEnv(c.Env) && !hasFunEnv(c) && !usesHarness && len(c.Ops) == 0 {
		apiChecked = true
		judge := func(host interface{}, what string, sameRendering bool) *Outcome {
			var dv, evv *val.Val
			var derr, eerr error
			var dreport string
			dp := run.Guard(func() { dv, dreport, derr = yae.Debug(r.Src, host) })
			ep := run.Guard(func() { evv, eerr = yae.Eval(r.Src, host) })
			dfail, efail := dp != nil || derr != nil, ep != nil || eerr != nil
			if dfail != efail || dfail != (wf != nil) {
				return bad("Debug %s, Eval %s, by the rules the program %s (%s)\n src: %s\n env: %s", outcomeText(dv, derr, dp), outcomeText(evv, eerr, ep), expectText(&CaseRun{RefVal: wv, RefFail: wf}), what, r.Src, envSummary(c))
			}
			if !dfail {
				a, pa := run.FromYaeVal(dv, r.RefType)
				b, pb := run.FromYaeVal(evv, r.RefType)
				if len(pa)+len(pb) > 0 || !m.Identical(a, b) || !m.Identical(a, wv) {
					return bad("Debug yields %s, Eval %s, the rules %s (%s)\n src: %s", renderVal(dv), renderVal(evv), wv.Render(), what, r.Src)
				}
			}
			// the report Debug hands out: the source as its first line and every recorded value,
			// whether the evaluation ended in a value or in a failure
			if dp == nil {
				dl := strings.Split(dreport, "\n")
				if dl[0] != r.Src {
					return bad("first line of the report returned by Debug is %q, the source is %q (%s; Debug %s)\n env: %s", dl[0], r.Src, what, outcomeText(dv, derr, dp), envSummary(c))
				}
				if sameRendering {
					// the same values at the same columns as the record of route (b) (the environment
					// holds the very values; as a map the field orders of objects may be other ones)
					if o := shows(dreport, "the report returned by Debug ("+what+")"); o != nil {
						return o
					}
				}
				if len(entries) > 0 && len(dl) < 2 {
					return bad("the report returned by Debug shows none of the %d recorded values (%s; Debug %s)\n report:\n%s", len(entries), what, outcomeText(dv, derr, dp), dreport)
				}
			}
			return nil
		}
		if o := judge(run.EnvStruct(c.Vals), "environment as a Go struct", true); o != nil {
			return o
		}
		// the same source once more with environments of ONE Go type (map[string]interface{}):
		// first a sibling that binds every name to a number and lacks one name, then the real one
		if mp, okm := run.EnvMap(conformAll(c.Vals)); okm && len(mp) > 0 {
			sibling := map[string]interface{}{}
			first := true
			for _, n := range sortedNames(c.Vals) {
				if first && len(mp) > 1 {
					first = false
					continue
				}
				sibling[n] = 0.0
			}
			_ = run.Guard(func() { _, _, _ = yae.Debug(r.Src, sibling) })
			_ = run.Guard(func() { _, _ = yae.Eval(r.Src, sibling) })
			if o := judge(mp, "environment as map[string]interface{}, after a call with the same source over a differently typed map", false); o != nil {
				return o
			}
		}
	}
	classes := []string{}
	if apiChecked {
		classes = append(classes, "public-Debug-vs-Eval")
	}
	nonASCIIBefore := false
	for _, w := range want {
		for _, ch := range runes[:w.col-1] {
			if ch >= 0x80 {
				nonASCIIBefore = true
			}
		}
	}
	unevaluated := false
	termCount := 0
	r.Core.Walk(func(e *m.Expr) {
		switch e.K {
		case "var", "call", "dcall", "member", "index":
			termCount++
		}
	})
	if termCount > len(want) {
		unevaluated = true
		classes = append(classes, "unevaluated-branch")
	}
	if nonASCIIBefore {
		classes = append(classes, "non-ascii-before-term")
	}
	if competing {
		classes = append(classes, "values-competing-for-a-line")
	}
	if wf != nil {
		classes = append(classes, "fails")
	}
	return ok(len(want) >= 3 && (unevaluated || nonASCIIBefore || competing), classes...)
}

var multiLineSplit = regexp.MustCompile("\r\n|\r|\n")

func hasFunEnv(c *ProgCase) bool {
	for _, t := range c.Env {
		if t.HasKind(m.TFun) {
			return true
		}
	}
	return false
}

func conformAll(vals map[string]*m.Val) map[string]*m.Val {
	out := map[string]*m.Val{}
	for n, v := range vals {
		out[n] = v.Conform(nil)
	}
	return out
}

func outcomeText(v *val.Val, err error, p *run.Panic) string {
	switch {
	case p != nil:
		return "PANICS (" + p.Text + ")"
	case err != nil:
		return "fails (" + err.Error() + ")"
	}
	return "yields " + renderVal(v)
}

func fmtEntries(es []debug.VerifEntry) string {
	xs := make([]string, len(es))
	for i, e := range es {
		xs[i] = fmt.Sprintf("%s@%d", renderVal(e.V), e.Col)
	}
	return strings.Join(xs, " ")
}
func fmtTerms(ts []term) string {
	xs := make([]string, len(ts))
	for i, t := range ts {
		xs[i] = fmt.Sprintf("%s@%d", t.v.Render(), t.col)
	}
	return strings.Join(xs, " ")
}

var c19opt = gen.ProgOpt{Fuel: 4, Partial: true, Sugar: true, Maybe: true, Times: true, Harness: true, Poison: true, HostEnv: true}

// withBlanks: the blank between tokens drawn from a blank, several blanks, a tab, a carriage
// return (all white space for the lexer; debug mode only refuses line feeds)
func withBlanks(g func(t *rapid.T) *ProgCase) func(t *rapid.T) *ProgCase {
	return func(t *rapid.T) *ProgCase {
		c := g(t)
		if !c.Print.Newlines {
			c.Print.Blank = pick2(t, []string{"", "", "", "  ", "\t", "\r", " \r "})
		}
		// white space before the first and after the last token: part of the source given
		c.Print.Pad = pick2(t, []string{"", "", "", " ", "   ", "\t", " \t"})
		c.Print.Trail = pick2(t, []string{"", "", "", " ", "  ", "\t"})
		return c
	}
}

// genPostfixCase: programs using a user-registered postfix operator (!! :: num -> num), whose
// own token comes AFTER its operand
func genPostfixCase(t *rapid.T) *ProgCase {
	o := c19opt
	o.NoPick = true // a lazy function that forces one operand twice records one term twice (outside the domain)
	g := gen.NewG(t, o)
	post := func() *m.Expr { return m.Postfix("!!", g.Expr(m.Num)) }
	var e *m.Expr
	switch rapid.IntRange(0, 4).Draw(t, "postfixform") {
	case 0:
		e = post()
	case 1:
		e = m.Infix("+", post(), g.Expr(m.Num))
	case 2:
		e = m.Call("max", g.Expr(m.Num), post())
	case 3:
		e = m.Postfix("!!", m.Postfix("!!", g.Expr(m.Num)))
	default:
		e = m.Call("if", m.Infix("<", post(), g.Expr(m.Num)), post(), g.Expr(m.Num))
	}
	e = gen.Parenthesize(e)
	extra := append(append([]ref.FunSig(nil), run.StdHarness...), run.SigPost)
	return &ProgCase{E: e, Env: g.Env, Vals: g.Vals, Extra: extra, Stats: g.Stats,
		Ops: []ref.Op{{Name: "!!", BP: 12.5, Fix: "postfix"}}}
}

var c19post = Register(&Prop[ProgCase]{ID: "C19", Name: "debug-record-postfix-operator", Gen: withBlanks(genPostfixCase), Check: checkC19})

var c19 = Register(&Prop[ProgCase]{ID: "C19", Name: "debug-record", Gen: withBlanks(genProgCaseNoPick(c19opt)), Check: checkC19})

var c19apiOpt = gen.ProgOpt{Fuel: 4, Partial: true, Sugar: true, Maybe: true, Times: true, Harness: false, Poison: false, HostEnv: true}
var c19api = Register(&Prop[ProgCase]{ID: "C19", Name: "debug-api", Gen: withBlanks(genProgCase(c19apiOpt, nil)), Check: checkC19})

func TestC19(t *testing.T) {
	R.Rule = "accepted single-line programs (ASCII and non-ASCII identifiers and strings, a user-registered postfix operator whose token follows its operand, blanks / tabs / carriage returns between tokens and before the first / after the last token, sugar, unevaluated lazy branches, failing operands) over conforming environments; oracle: (a) yae.Debug returns the same value / failure as Eval and the reference, and its report - after a value and after a failure alike - has the source as first line and shows every value recorded on route (b) at its column, with the environment as a Go struct and again as map[string]interface{} after a call with the same source over a differently typed map of the same Go type; (b) closure.DebugCompile with a debug.Record read through the hook records exactly the reference evaluator's evaluated variable / call / member / subscript terms, in completion order, each with its value and the column of its own token + 1 (identifier start, operator token, '(' of a call, '.', '['); (c) Render does not fail, its first line is the source and every recorded value appears at its column on a later line (a value whose text has line breaks on consecutive lines, every piece at that column); (d) a second and third evaluation of the same compiled expression with the same record give the same entries and report; non-trivial = >= 3 recorded terms and an unevaluated branch, a non-ASCII rune before a recorded term, or two values competing for a line"
	R.Assume = []string{"ref.Eval's completion order; model.Print's token positions; lazy functions that force a thunk twice (lz_pick) are outside the domain (one term, two evaluations)"}
	reportKnown(t, "C19")
	runRegress(t, "C19")
	c19.Run(t, budget(4000, 240000))
	c19api.Run(t, budget(3000, 160000))
	c19post.Run(t, budget(1500, 80000))
}
