package props

import (
	"testing"
)

// Native fuzz targets (thorough tier only; a native-fuzz campaign cannot be
// pinned to a seed, the saved failing input is the reproducible unit). Each
// target runs the same check function as the rapid property, so the oracle is
// inside the target; a failure is written as a replay file and printed as a
// VIOLATION line when the saved input is re-run in ordinary test mode.

func fuzzFail(t *testing.T, o *Outcome) {
	if o != nil && o.Err != nil {
		reportFailure(t)
		t.Fatalf("%v", o.Err)
	}
}

func FuzzAPI(f *testing.F) {
	for _, s := range seedPrograms {
		f.Add(s)
	}
	for _, s := range []string{"[[[[[[[[[[[[[[[[[[[[[[[[1", "x.f().f().f().f().f().f().f().f()", "((((((((((", `"\u12`, "1e999", "0x", "'", "`", "a ? b : c ? d", "{a:{a:{a:", "[1:[1:[1:", "f(,)", "a..b", "1 . . 2", "\x00", "\xff\xfe"} {
		f.Add(s)
	}
	f.Fuzz(func(t *testing.T, src string) {
		if len(src) > 4096 {
			return
		}
		c := &APICase{Src: src, Kind: "native-fuzz"}
		p := c12
		key := []byte(`{"src":` + jsonString(src) + `,"kind":"native-fuzz"}`)
		o := p.Check(c)
		if o.Err != nil {
			lastFail = &failure{replayFile{Property: "C12", Check: "api-total", Error: o.Err.Error(), Case: key}}
		}
		fuzzFail(t, o)
	})
}

func FuzzLex(f *testing.F) {
	for _, s := range lexSnippets {
		f.Add(s)
	}
	for _, s := range seedPrograms {
		f.Add(s)
	}
	f.Fuzz(func(t *testing.T, src string) {
		if len(src) > 512 {
			return
		}
		c := &LexCase{Input: src}
		o := checkLex(c)
		if o.Err != nil {
			lastFail = &failure{replayFile{Property: "C09", Check: "lexer-vs-lexicon", Error: o.Err.Error(), Case: []byte(`{"input":` + jsonString(src) + `}`)}}
		}
		fuzzFail(t, o)
	})
}

func FuzzParse(f *testing.F) {
	for _, s := range seedPrograms {
		f.Add(s)
	}
	for _, s := range []string{"1 == 2 == 3", "a < b < c || d", "- a ^ b", "a ? b : c ? d : e", "a . b ( c ) [ d ] . e", "[ a : b , c : d , ]", "{ a : 1 , }", "f ( a , )", "! ! a", "a . true", "( a ) ( b )"} {
		f.Add(s)
	}
	f.Fuzz(func(t *testing.T, src string) {
		if len(src) > 512 {
			return
		}
		c := &ParseCase{Src: src, Mode: "native-fuzz"}
		o := checkParse(c)
		if o.Err != nil {
			lastFail = &failure{replayFile{Property: "C08", Check: "parser-vs-declarations", Error: o.Err.Error(), Case: []byte(`{"src":` + jsonString(src) + `,"mode":"native-fuzz"}`)}}
		}
		fuzzFail(t, o)
	})
}

// FuzzDiff: arbitrary source strings over a fixed environment; whatever compiles
// must behave alike on the four execution paths (C03's source-strings check).
func FuzzDiff(f *testing.F) {
	for _, s := range seedPrograms {
		f.Add(s)
	}
	for _, s := range []string{"a + x", "if(b, a, x)", "b && a > x || !b", "xs[0] + xs[1]", `mp["k"] + get(mp, "z", 1)`, "o.a + len(o.b)", "len(xs) > 1 ? max(xs) : min(xs)",
		"string(a) + s", "[a, x, 1].len()", `["k": a, s: x]["k"]`, "{p: a, q: [x]}.q[0]", "union(xs, [a])", "get(xs, 5, 0)", "t > t", "string(o)", "string(mp)", "a / 0", "xs[7]", "a % x", "-a ^ 2",
		"hsub(a, x)", "lz_if(b, a, x)", "tr(1, a) + tr(2, x)", "lz_and(b, boom(1)) || b"} {
		f.Add(s)
	}
	f.Fuzz(func(t *testing.T, src string) {
		if len(src) > 1024 {
			return
		}
		o := checkSrcDiff(&SrcCase{Src: src})
		if o.Err != nil {
			lastFail = &failure{replayFile{Property: "C03", Check: "source-strings", Error: o.Err.Error(), Case: []byte(`{"src":` + jsonString(src) + `}`)}}
		}
		fuzzFail(t, o)
	})
}
