package props

import (
	"strings"
	"testing"

	"pgregory.net/rapid"

	"verif/gen"
	m "verif/model"
	"verif/run"
)

// C06 — lazy operands run only when selected; strict operands once, left to right.

func genTracedCase(o gen.ProgOpt) func(t *rapid.T) *ProgCase {
	return func(t *rapid.T) *ProgCase {
		g := gen.NewG(t, o)
		want := g.AnyResultType()
		e := g.ExprTraced(want)
		return &ProgCase{E: e, Env: g.Env, Vals: g.Vals, Extra: run.StdHarness, Stats: g.Stats}
	}
}

func lazyDepth(core *m.Expr) int {
	var d func(e *m.Expr) int
	d = func(e *m.Expr) int {
		best := 0
		for _, a := range e.A {
			if x := d(a); x > best {
				best = x
			}
		}
		if e.K == "call" && (e.Name == "if" || e.Name == "&&" || e.Name == "||" || strings.HasPrefix(e.Name, "lz_")) {
			return best + 1
		}
		return best
	}
	return d(core)
}

func checkC06(c *ProgCase) *Outcome {
	r := refRun(c)
	if s := domainSkip(r); s != "" {
		return skip(s)
	}
	runBackends(c, r, run.AllBackends)
	for _, b := range r.Runs {
		o := b.O
		if !o.Compiled() {
			return bad("%s does not compile an accepted program: %s\n src: %s", o.Be, describeOutcome(b), clip(r.Src))
		}
		if b.O.Be == run.VMCall && o.Failed() && o.FailText() == "over exec limit" && excludedFamily("callthread-exec-limit") {
			return skip("known:callthread-exec-limit")
		}
		if (r.RefFail != nil) != o.Failed() {
			return bad("%s: %s, but by the evaluation rules the program %s\n expected effects: %s\n observed effects: %s\n src: %s\n env: %s",
				o.Be, describeOutcome(b), expectText(r), traceStr(r.RefTrace), traceStr(o.Trace), clip(r.Src), envSummary(c))
		}
		if !sameTrace(o.Trace, r.RefTrace) {
			return bad("%s: host-function invocations differ from the evaluation rules\n expected: %s\n observed: %s\n src: %s\n env: %s",
				o.Be, traceStr(r.RefTrace), traceStr(o.Trace), clip(r.Src), envSummary(c))
		}
	}
	depth := lazyDepth(r.Core)
	classes := []string{}
	if depth >= 2 {
		classes = append(classes, "nested-lazy>=2")
	}
	if depth >= 3 {
		classes = append(classes, "nested-lazy>=3")
	}
	if c.Stats["guarded-partial"] > 0 {
		classes = append(classes, "guarded-partial")
	}
	if c.Stats["poison"] > 0 {
		if r.RefFail == nil {
			classes = append(classes, "poison-not-selected")
		} else {
			classes = append(classes, "poison-selected")
		}
	}
	if c.Stats["lz_pick"] > 0 {
		classes = append(classes, "thunk-forced-twice-or-reordered")
	}
	nontrivial := (c.Stats["poison"] > 0 && depth >= 1) || len(r.RefTrace) >= 3
	return ok(nontrivial, classes...)
}

func expectText(r *CaseRun) string {
	if r.RefFail != nil {
		return "stops (" + r.RefFail.Error() + ")"
	}
	return "yields " + r.RefVal.Render()
}

var c06opt = gen.ProgOpt{Fuel: 4, Partial: true, Sugar: true, NonFinite: false, Maybe: true, Times: false, Harness: true, Poison: true}

var c06 = Register(&Prop[ProgCase]{ID: "C06", Name: "effects", Gen: genTracedCase(c06opt), Check: checkC06})

func TestC06(t *testing.T) {
	R.Rule = "well-typed programs in which every operand position (call arguments, operator operands, list elements, map keys and values, object fields, subscript operands, condition and arms of if / ?:, both sides of && / ||, parameters of lazy harness functions) is wrapped in the effect-recording tr(label, .) with a unique label, with deliberately failing operands (boom, xs[99], m[\"absent\"], x % 0) and guarded patterns if(isset(m,k), m[k], d); lazy harness functions that force a thunk twice, never or in reverse order; four back ends; oracle: the reference evaluator's effect log and outcome; non-trivial = a poisoned operand under a lazy call, or >= 3 recorded effects"
	R.Assume = []string{"ref.Eval: strict left-to-right, lazy positions only for functions registered lazy"}
	reportKnown(t, "C06")
	runRegress(t, "C06")
	c06.Run(t, budget(6000, 320000))
}
