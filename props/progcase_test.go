package props

import (
	"encoding/json"
	"fmt"
	"sort"
	"strings"
	"sync"

	"github.com/goghcrow/yae"
	"github.com/goghcrow/yae/compiler"
	"github.com/goghcrow/yae/val"

	m "verif/model"
	"verif/ref"
	"verif/run"
)

// ProgCase is one generated program with its environments and registrations.
type ProgCase struct {
	E     *m.Expr            `json:"expr"`
	Src   string             `json:"src,omitempty"` // informational; recomputed from E
	Env   map[string]*m.Type `json:"env,omitempty"`
	Vals  map[string]*m.Val  `json:"vals,omitempty"`
	Extra []ref.FunSig       `json:"extra,omitempty"` // harness functions registered after the built-ins
	Ops   []ref.Op           `json:"ops,omitempty"`   // user-registered operators (on top of the built-in table)
	Print m.PrintOpt         `json:"print,omitempty"`
	Stats map[string]int     `json:"stats,omitempty"`
}

// BackendRun: what one back end did with the program.
type BackendRun struct {
	O     *run.Outcome
	Val   *m.Val   // checked-walk reading of the result (nil if none / malformed)
	Probs []string // checked-walk problems against the inferred type
	// Again: how a second invocation of the SAME Callable (fresh environment object, same
	// contents, objects in the reverse field order) differs from the first; "" when it does not. A Callable carries no state from
	// one invocation to the next, so whatever a property says about the first invocation it
	// says about the second.
	Again string
}

// CaseRun: reference verdicts and the four back ends' outcomes.
type CaseRun struct {
	Src      string
	Core     *m.Expr
	RefType  *m.Type
	RefErr   error // reference checker rejects
	Checker  *ref.Checker
	RefVal   *m.Val
	RefFail  *ref.Failure
	RefTrace []string
	RefOut   []string
	Flags    map[string]int
	Runs     []*BackendRun
}

func (c *ProgCase) allFuns() []ref.FunSig {
	return append(append([]ref.FunSig(nil), ref.BuiltIns...), c.Extra...)
}

// refRun: print, desugar, check and evaluate with the reference.
func refRun(c *ProgCase) *CaseRun {
	r := &CaseRun{}
	r.Src = m.Print(c.E, c.Print)
	c.Src = r.Src
	r.Core = ref.Desugar(c.E)
	ck := ref.NewChecker(c.Env, c.allFuns())
	r.Checker = ck
	r.RefType, r.RefErr = ck.Check(r.Core)
	if r.RefErr != nil {
		return r
	}
	ev := ref.NewEvaluator(ck, c.Vals, run.RefHarness(c.Extra))
	r.RefVal, r.RefFail = ev.Eval(r.Core)
	r.RefTrace, r.RefOut, r.Flags = ev.Trace, ev.Stdout, ev.Flags
	return r
}

// runBackends compiles and runs the program on the given back ends (fresh
// engine and fresh environment objects each).
func runBackends(c *ProgCase, r *CaseRun, bes []run.Backend) {
	for _, be := range bes {
		en := run.NewEngine(be, c.Extra)
		o := &run.Outcome{Be: be}
		callable, err, p := en.CompileSrc(r.Src, c.Env)
		o.CompileErr, o.CompilePan = err, p
		br := &BackendRun{O: o}
		if o.Compiled() {
			en.Invoke(callable, c.Vals, o)
			if !o.Failed() {
				br.Val, br.Probs = run.FromYaeVal(o.Val, r.RefType)
			}
			// the second invocation gets the same environment contents with every object written
			// in the reverse field order (an equal type, equal values): nothing may depend on the
			// field order a Callable happened to meet first
			o2 := &run.Outcome{Be: be}
			en.Invoke(callable, reverseFieldOrders(c.Vals), o2)
			br.Again = againDiff(br, o2, r.RefType)
			if br.Again == "" && traceHasTr(o.Trace) {
				br.Again = reentrantDiff(en, callable, c, br, r.RefType)
			}
		}
		r.Runs = append(r.Runs, br)
	}
}

func reverseFieldOrders(vals map[string]*m.Val) map[string]*m.Val {
	out := make(map[string]*m.Val, len(vals))
	rev := func(n int) []int {
		p := make([]int, n)
		for i := range p {
			p[i] = n - 1 - i
		}
		return p
	}
	for n, v := range vals {
		out[n] = v.Permute(rev)
	}
	return out
}

func traceHasTr(tr []string) bool {
	for _, l := range tr {
		if strings.HasPrefix(l, "tr(") {
			return true
		}
	}
	return false
}

// reentrantDiff: a third invocation during which the first call of the host function tr
// invokes the same Callable once more, to completion, before it returns: the nested
// invocation and the interrupted one must both end like the first invocation (values and
// failure; the interleaved host-function traces are not compared).
func reentrantDiff(en *run.Engine, callable yae.Callable, c *ProgCase, first *BackendRun, ty *m.Type) string {
	depth := 0
	var inner *run.Outcome
	en.Tr.Hook = func() {
		if depth > 0 || inner != nil {
			return
		}
		depth++
		defer func() { depth-- }()
		in := &run.Outcome{Be: first.O.Be}
		ve := en.ValEnv(c.Vals)
		in.RunPan = run.Guard(func() { in.Val, in.RunErr = callable(ve) })
		inner = in
	}
	outer := &run.Outcome{Be: first.O.Be}
	ve := en.ValEnv(c.Vals)
	outer.RunPan = run.Guard(func() { outer.Val, outer.RunErr = callable(ve) })
	en.Tr.Hook = nil
	cmp := func(what string, o *run.Outcome) string {
		if o == nil {
			return ""
		}
		if o.Failed() != first.O.Failed() {
			return fmt.Sprintf("first invocation: %s; %s: %s", describeOutcome(first), what, describeOutcome(&BackendRun{O: o}))
		}
		if o.Failed() {
			return ""
		}
		v, probs := run.FromYaeVal(o.Val, ty)
		if (len(first.Probs) == 0) != (len(probs) == 0) {
			return fmt.Sprintf("%s yields a differently formed value: first %v; now %v", what, first.Probs, probs)
		}
		if first.Val != nil && v != nil && !m.Identical(first.Val, v) {
			return fmt.Sprintf("first invocation yields %s, %s yields %s", first.Val.Render(), what, v.Render())
		}
		return ""
	}
	if d := cmp("an invocation of the same Callable nested inside its own evaluation (from a host function)", inner); d != "" {
		return d
	}
	return cmp("the invocation that was interrupted by a nested invocation of the same Callable", outer)
}

// againDiff: the second invocation against the first - failed or not, the value read by the
// checked walk (bit-exact numbers), the host-function trace.
func againDiff(first *BackendRun, o2 *run.Outcome, ty *m.Type) string {
	o := first.O
	if o.Failed() != o2.Failed() {
		return fmt.Sprintf("first invocation: %s; second invocation of the same Callable: %s", describeOutcome(first), describeOutcome(&BackendRun{O: o2}))
	}
	if !sameTrace(o.Trace, o2.Trace) {
		return fmt.Sprintf("host functions invoked differently by the second invocation of the same Callable: first %s; second %s", traceStr(o.Trace), traceStr(o2.Trace))
	}
	if o.Failed() {
		return ""
	}
	v2, probs2 := run.FromYaeVal(o2.Val, ty)
	if (len(first.Probs) == 0) != (len(probs2) == 0) {
		return fmt.Sprintf("the second invocation of the same Callable yields a differently formed value: first %v; second %v", first.Probs, probs2)
	}
	if first.Val != nil && v2 != nil && !m.Identical(first.Val, v2) {
		return fmt.Sprintf("first invocation yields %s, the second invocation of the same Callable yields %s", first.Val.Render(), v2.Render())
	}
	return ""
}

func fullRun(c *ProgCase) *CaseRun {
	r := refRun(c)
	runBackends(c, r, run.AllBackends)
	return r
}

func traceStr(t []string) string { return strings.Join(t, " ; ") }

func sameTrace(a, b []string) bool {
	if len(a) != len(b) {
		return false
	}
	for i := range a {
		if a[i] != b[i] {
			return false
		}
	}
	return true
}

// internalFault: failure texts that name an internal fault rather than one of
// the language's partial operations (C02's list).
func internalFault(text string) string {
	for _, s := range []string{"unreachable", "nil pointer dereference", "invalid memory address", "interface conversion",
		"unsupported opcode", "over exec limit", "slice bounds out of range", "makeslice", "stack overflow"} {
		if strings.Contains(text, s) {
			return s
		}
	}
	if strings.TrimSpace(text) == "" {
		return "empty assertion (evaluation-stack underflow)"
	}
	return ""
}

func describeOutcome(b *BackendRun) string {
	o := b.O
	switch {
	case o.CompilePan != nil:
		return "compile PANIC: " + o.CompilePan.Text
	case o.CompileErr != nil:
		return "compile error: " + o.CompileErr.Error()
	case o.RunPan != nil:
		return "run PANIC: " + o.RunPan.Text
	case o.RunErr != nil:
		return "run error: " + o.RunErr.Error()
	case len(b.Probs) > 0:
		return "malformed value: " + strings.Join(b.Probs, "; ")
	case b.Val != nil:
		return "value " + b.Val.Render()
	}
	return "no value"
}

func renderVal(v *val.Val) string {
	mv, probs := run.FromYaeVal(v, nil)
	if len(probs) > 0 || mv == nil {
		return "<malformed: " + strings.Join(probs, "; ") + ">"
	}
	return mv.Render()
}

func envSummary(c *ProgCase) string {
	ks := make([]string, 0, len(c.Env))
	for k := range c.Env {
		ks = append(ks, k)
	}
	sort.Strings(ks)
	var b strings.Builder
	for _, k := range ks {
		fmt.Fprintf(&b, "%s:%s=%s ", k, c.Env[k].OrderString(), c.Vals[k].Render())
	}
	return b.String()
}

// once-per-process cross-check that the hard-coded built-in table is the
// set of signatures fun.BuiltIn() exports (same names, shapes and laziness).
var builtinCheck struct {
	once sync.Once
	err  error
}

func checkBuiltInTable() error {
	builtinCheck.once.Do(func() {
		want := map[string]int{}
		for _, f := range ref.BuiltIns {
			want[f.Type().CanonVars().String()]++
		}
		got := map[string]int{}
		for _, t := range run.BuiltInSignatures() {
			got[t.CanonVars().String()]++
		}
		var diffs []string
		for k, n := range want {
			if got[k] != n {
				diffs = append(diffs, fmt.Sprintf("documented %s: registered %d times", k, got[k]))
			}
		}
		for k, n := range got {
			if want[k] != n {
				diffs = append(diffs, fmt.Sprintf("registered %s is not in the documented list (%d)", k, n))
			}
		}
		lz := run.BuiltInLazy()
		for _, f := range ref.BuiltIns {
			if f.Lazy != lz[f.Name] && (f.Name == "if" || f.Name == "&&" || f.Name == "||") {
				diffs = append(diffs, "laziness of "+f.Name)
			}
		}
		sort.Strings(diffs)
		if len(diffs) > 0 {
			builtinCheck.err = fmt.Errorf("built-in table drift: %s", strings.Join(diffs, "; "))
		}
	})
	return builtinCheck.err
}

func refReserved(s string) bool { return ref.Reserved[s] }

func sortStringsInPlace(xs []string) { sort.Strings(xs) }

func jsonString(s string) string {
	b, _ := json.Marshal(s)
	return string(b)
}

// runBackendsAST compiles the (desugared) tree directly, bypassing lexer and
// parser (whose cost is quadratic in the source length: a 200 KB source takes
// about a minute to lex). Used for the capacity classes only. The interpreter
// needs the engine's run-time function table behind the environment, which
// only the facade links, so it is not run in this mode.
func runBackendsAST(c *ProgCase, r *CaseRun, bes []run.Backend) {
	for _, be := range bes {
		if be == run.Interp {
			continue
		}
		en := run.NewEngine(be, c.Extra)
		o := &run.Outcome{Be: be}
		var cl compiler.Closure
		if p := run.Guard(func() { cl = en.E.CompileExpr(run.ToAst(r.Core), run.TypeEnv(c.Env)) }); p != nil {
			// CompileExpr reports errors by panicking (Compile converts them)
			o.CompileErr = fmt.Errorf("%s", p.Text)
		} else {
			en.Tr.Reset()
			ve := en.ValEnv(c.Vals)
			o.RunPan = run.Guard(func() { o.Val = cl(ve) })
			o.Trace = en.Tr.Snapshot()
		}
		br := &BackendRun{O: o}
		if o.Compiled() && !o.Failed() {
			br.Val, br.Probs = run.FromYaeVal(o.Val, r.RefType)
		}
		r.Runs = append(r.Runs, br)
	}
}

const astModeFrom = 5000 // stress sizes above this are compiled from the tree
