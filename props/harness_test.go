package props

import (
	"encoding/json"
	"errors"
	"flag"
	"fmt"
	"os"
	"path/filepath"
	"strconv"
	"strings"
	"sync"
	"testing"
	"time"

	"pgregory.net/rapid"

	"verif/ev"
)

var (
	R       *ev.Rec
	PropID  string
	Tier    string
	Seed    int64
	Shard   int
	NShard  = 1
	Root    string
	workDir string
	known   = &knownFile{}
)

func envInt(name string, def int64) int64 {
	if v, err := strconv.ParseInt(os.Getenv(name), 10, 64); err == nil {
		return v
	}
	return def
}

func TestMain(m *testing.M) {
	PropID = os.Getenv("VERIF_PROP")
	Tier = os.Getenv("VERIF_TIER")
	if Tier == "" {
		Tier = "quick"
	}
	Seed = envInt("VERIF_SEED", 1)
	Shard = int(envInt("VERIF_SHARD", 0))
	NShard = int(envInt("VERIF_NSHARD", 1))
	Root = os.Getenv("VERIF_ROOT")
	if Root == "" {
		Root = ".."
	}
	workDir = os.Getenv("VERIF_WORK")
	R = ev.New(PropID, Tier, Seed)
	loadKnown(filepath.Join(Root, "known_findings.json"))
	flag.Parse()
	code := m.Run()
	if parts := os.Getenv("VERIF_PARTS"); parts != "" && PropID != "" {
		if err := R.WritePart(parts, Shard); err != nil {
			fmt.Fprintln(os.Stderr, "evidence part:", err)
			code = 2
		}
	}
	os.Exit(code)
}

// ---------------------------------------------------------------- outcomes

// Outcome of checking one case.
type Outcome struct {
	Err        error    // non-nil: the property is violated by this case
	Skip       string   // non-empty: case excluded (known-finding family or out of domain), not counted as evaluated
	Nontrivial bool     // by the property's stated rule
	Classes    []string // distribution labels
}

func ok(nontrivial bool, classes ...string) *Outcome {
	return &Outcome{Nontrivial: nontrivial, Classes: classes}
}
func bad(format string, a ...interface{}) *Outcome {
	return &Outcome{Err: fmt.Errorf(format, a...)}
}
func skip(family string) *Outcome { return &Outcome{Skip: family} }

// ---------------------------------------------------------------- property registry

type replayer func(raw json.RawMessage) *Outcome

var replayers = map[string]replayer{}

type Prop[C any] struct {
	ID    string
	Name  string
	Gen   func(t *rapid.T) *C
	Check func(c *C) *Outcome
}

func Register[C any](p *Prop[C]) *Prop[C] {
	key := p.ID + "/" + p.Name
	if _, dup := replayers[key]; dup {
		panic("duplicate prop " + key)
	}
	replayers[key] = func(raw json.RawMessage) *Outcome {
		c := new(C)
		if err := json.Unmarshal(raw, c); err != nil {
			return &Outcome{Err: fmt.Errorf("replay decode: %v", err), Skip: "decode"}
		}
		return p.Check(c)
	}
	return p
}

type replayFile struct {
	Property string          `json:"property"`
	Check    string          `json:"check"`
	Error    string          `json:"error,omitempty"`
	Case     json.RawMessage `json:"case"`
}

type failure struct {
	rf replayFile
}

var lastFail *failure

// ---- watchdog: a single case that runs for longer than watchdogLimit aborts
// the process with a marker the driver understands (exit code 3).
var (
	wdMu       sync.Mutex
	wdStart    time.Time
	wdCase     []byte
	wdOnce     sync.Once
	wdDisabled bool
)

const watchdogLimit = 180 * time.Second

func watchdogArm(b []byte) {
	wdOnce.Do(func() {
		go func() {
			for {
				time.Sleep(2 * time.Second)
				wdMu.Lock()
				st, c := wdStart, wdCase
				wdMu.Unlock()
				if !wdDisabled && !st.IsZero() && time.Since(st) > watchdogLimit {
					fmt.Printf("\nWATCHDOG property=%s one case has been running for %s\n", PropID, time.Since(st).Round(time.Second))
					if workDir != "" {
						_ = os.WriteFile(filepath.Join(workDir, fmt.Sprintf("%s.%d.current", PropID, Shard)), c, 0o644)
					}
					os.Exit(3)
				}
			}
		}()
	})
	wdMu.Lock()
	wdStart, wdCase = time.Now(), b
	wdMu.Unlock()
}

func watchdogDisarm() {
	wdMu.Lock()
	wdStart = time.Time{}
	wdMu.Unlock()
}

func crumb(id, name string, key []byte) {
	if workDir == "" {
		return
	}
	b, _ := json.Marshal(replayFile{Property: id, Check: name, Error: "process died (or hung) while executing this case", Case: key})
	_ = os.WriteFile(filepath.Join(workDir, fmt.Sprintf("%s.%d.current", id, Shard)), b, 0o644)
	watchdogArm(b)
}

func clearCrumb(id string) {
	watchdogDisarm()
	if workDir != "" {
		_ = os.Remove(filepath.Join(workDir, fmt.Sprintf("%s.%d.current", id, Shard)))
	}
}

func reportFailure(t testing.TB) {
	if lastFail == nil {
		return
	}
	f := lastFail
	lastFail = nil
	b, _ := json.MarshalIndent(f.rf, "", " ")
	name := fmt.Sprintf("%s-%s-%012x.json", f.rf.Property, f.rf.Check, ev.Hash(f.rf.Case)&0xffffffffffff)
	path := filepath.Join(Root, "replay", name)
	if abs, err := filepath.Abs(path); err == nil {
		path = abs
	}
	_ = os.MkdirAll(filepath.Dir(path), 0o755)
	_ = os.WriteFile(path, b, 0o644)
	R.Violation()
	fmt.Printf("\nVIOLATION property=%s replay=%s\n", f.rf.Property, path)
	fmt.Printf("  check=%s error=%s\n", f.rf.Check, oneLine(f.rf.Error, 600))
}

func oneLine(s string, n int) string {
	s = strings.ReplaceAll(s, "\n", " | ")
	if len(s) > n {
		s = s[:n] + "..."
	}
	return s
}

// one executes the check for one case with breadcrumb and accounting.
// It returns the failure text or "".
func (p *Prop[C]) one(c *C, label string) string {
	key, err := json.Marshal(c)
	if err != nil {
		panic(fmt.Sprintf("case not serialisable: %v", err))
	}
	crumb(p.ID, p.Name, key)
	o := p.Check(c)
	watchdogDisarm()
	if o.Skip != "" {
		R.Excluded(o.Skip)
		return ""
	}
	if o.Err != nil {
		lastFail = &failure{replayFile{Property: p.ID, Check: p.Name, Error: o.Err.Error(), Case: key}}
		return o.Err.Error()
	}
	cls := append([]string{p.Name + ":" + label}, o.Classes...)
	R.Case(key, o.Nontrivial, cls...)
	return ""
}

func subSeed(name string) uint64 {
	h := ev.Hash([]byte(name))
	s := uint64(Seed)*1000003 + uint64(Shard)*7919 + h%1000 + 1
	if s == 0 {
		s = 1
	}
	return s
}

// Run draws n random cases (per shard) through rapid.
func (p *Prop[C]) Run(t *testing.T, n int) {
	t.Helper()
	if n <= 0 {
		return
	}
	_ = flag.Set("rapid.checks", strconv.Itoa(n))
	_ = flag.Set("rapid.seed", strconv.FormatUint(subSeed(p.Name), 10))
	_ = flag.Set("rapid.nofailfile", "true")
	_ = flag.Set("rapid.shrinktime", "20s")
	defer reportFailure(t)
	rapid.Check(t, func(rt *rapid.T) {
		c := p.Gen(rt)
		if msg := p.one(c, "random"); msg != "" {
			rt.Fatalf("%s/%s: %s", p.ID, p.Name, msg)
		}
	})
	clearCrumb(p.ID)
}

// Each runs the check over an enumeration; the shard takes every NShard-th
// item. Stops at the first failure.
func (p *Prop[C]) Each(t *testing.T, scope string, next func(yield func(*C) bool)) {
	t.Helper()
	defer reportFailure(t)
	i := 0
	failed := false
	next(func(c *C) bool {
		i++
		if (i-1)%NShard != Shard {
			return true
		}
		if msg := p.one(c, "enum"); msg != "" {
			failed = true
			t.Errorf("%s/%s [%s #%d]: %s", p.ID, p.Name, scope, i, msg)
			return false
		}
		return true
	})
	R.Exhaustive(p.Name+":"+scope, !failed)
	clearCrumb(p.ID)
	if failed {
		t.FailNow()
	}
}

// budget picks the per-shard case count: the totals are for the whole tier.
func budget(quickTotal, thoroughTotal int) int {
	n := quickTotal
	if Tier == "thorough" {
		n = thoroughTotal
	}
	n = n / NShard
	if n < 1 {
		n = 1
	}
	return n
}

// ---------------------------------------------------------------- known findings

type finding struct {
	Property string `json:"property"`
	ID       string `json:"id"`
	Status   string `json:"status"` // "open" | "fixed"
	What     string `json:"what"`
	Family   string `json:"family,omitempty"`
	Replay   string `json:"replay,omitempty"` // file under /verif/known/
	Commit   string `json:"commit,omitempty"`
}

type knownFile struct {
	Findings []finding `json:"findings"`
	active   map[string]bool
}

func loadKnown(path string) {
	known.active = map[string]bool{}
	b, err := os.ReadFile(path)
	if err != nil {
		return
	}
	if err := json.Unmarshal(b, known); err != nil {
		fmt.Fprintln(os.Stderr, "known_findings.json:", err)
		os.Exit(2)
	}
	for _, f := range known.Findings {
		if f.Status == "open" && f.Family != "" {
			known.active[f.Family] = true
		}
	}
}

// familyActive: a family of inputs is excluded by construction only while an
// open finding in the committed file names it.
func familyActive(name string) bool { return known.active[name] }

// reportKnown re-executes the recorded input of every open finding of this
// property (shard 0 only) and prints the KNOWN-FINDING line if it still fails.
func reportKnown(t *testing.T, id string) {
	if Shard != 0 {
		return
	}
	for _, f := range known.Findings {
		if f.Property != id || f.Status != "open" {
			continue
		}
		b, err := os.ReadFile(filepath.Join(Root, "known", f.Replay))
		if err != nil {
			t.Fatalf("known finding %s: %v", f.ID, err)
		}
		var rf replayFile
		if err := json.Unmarshal(b, &rf); err != nil {
			t.Fatalf("known finding %s: %v", f.ID, err)
		}
		rp, okk := replayers[rf.Property+"/"+rf.Check]
		if !okk {
			t.Fatalf("known finding %s: no check %s/%s", f.ID, rf.Property, rf.Check)
		}
		knownReplay = true
		o := rp(rf.Case)
		knownReplay = false
		watchdogDisarm()
		if o.Err != nil {
			fmt.Printf("KNOWN-FINDING: property=%s %s: %s\n", id, f.ID, f.What)
		} else {
			fmt.Printf("note: known finding %s of %s no longer reproduces\n", f.ID, id)
		}
	}
}

// knownReplay is set while a recorded finding is re-executed, so that family
// exclusion does not hide the very input that documents the family.
var knownReplay bool

func excludedFamily(name string) bool { return !knownReplay && familyActive(name) }

// runRegress replays the committed shrunk cases of defects found earlier
// (regress/<ID>/*.json); any failure is a violation.
func runRegress(t *testing.T, id string) {
	if Shard != 0 {
		return
	}
	files, _ := filepath.Glob(filepath.Join(Root, "regress", id, "*.json"))
	for _, f := range files {
		b, err := os.ReadFile(f)
		if err != nil {
			t.Fatal(err)
		}
		var rf replayFile
		if err := json.Unmarshal(b, &rf); err != nil {
			t.Fatalf("%s: %v", f, err)
		}
		rp, okk := replayers[rf.Property+"/"+rf.Check]
		if !okk {
			t.Fatalf("%s: no check %s/%s", f, rf.Property, rf.Check)
		}
		crumb(rf.Property, rf.Check, rf.Case) // a crash / race during the replay is attributed to this case
		o := rp(rf.Case)
		clearCrumb(rf.Property)
		R.Class("regress", 1)
		if o.Err != nil {
			abs, _ := filepath.Abs(f)
			R.Violation()
			fmt.Printf("\nVIOLATION property=%s replay=%s\n  regress check=%s error=%s\n", id, abs, rf.Check, oneLine(o.Err.Error(), 600))
			t.FailNow()
		}
	}
}

// ---------------------------------------------------------------- replay entry

func TestReplay(t *testing.T) {
	path := os.Getenv("VERIF_REPLAY")
	if path == "" {
		t.Skip("no VERIF_REPLAY")
	}
	b, err := os.ReadFile(path)
	if err != nil {
		t.Fatal(err)
	}
	var rf replayFile
	if err := json.Unmarshal(b, &rf); err != nil {
		t.Fatal(err)
	}
	rp, okk := replayers[rf.Property+"/"+rf.Check]
	if !okk {
		t.Fatalf("no check %s/%s", rf.Property, rf.Check)
	}
	knownReplay = true
	o := rp(rf.Case)
	if o.Err != nil {
		fmt.Printf("VIOLATION property=%s replay=%s\n  error=%s\n", rf.Property, path, oneLine(o.Err.Error(), 2000))
		t.Fail()
		return
	}
	fmt.Printf("ok replay %s/%s holds on this case (skip=%q)\n", rf.Property, rf.Check, o.Skip)
}

var errHarness = errors.New("harness")
