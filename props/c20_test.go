package props

import (
	"encoding/json"
	"fmt"
	"math"
	"regexp"
	"strconv"
	"strings"
	"sync"
	"testing"
	"unicode/utf8"

	"github.com/goghcrow/yae/ext"
	"github.com/goghcrow/yae/parser/ast"
	"github.com/goghcrow/yae/parser/pos"
	"github.com/goghcrow/yae/val"
	"pgregory.net/rapid"

	"verif/gen"
	m "verif/model"
	"verif/ref"
	"verif/run"
)

// C20 — generated SQL keeps the criteria's boolean structure and quotes literals safely.

type Operand struct {
	// Spell: how a literal is written in the criteria (the SQL form never depends on it): numbers
	// 1 hex, 2 octal, 3 binary, 4 with a fraction ".0", 5 with an exponent (integral values below
	// 2^31 only); strings 1 as a raw back-quoted literal (when the text allows it)
	Spell  int    `json:"spell,omitempty"`
	Kind   string `json:"kind"` // lit | name | member
	V      *m.Val `json:"v,omitempty"`
	Name   string `json:"name,omitempty"`
	Member string `json:"member,omitempty"`
}

type Crit struct {
	Op       string    `json:"op"` // AND | OR | NOT | leaf
	Kids     []*Crit   `json:"kids,omitempty"`
	Field    string    `json:"field,omitempty"`
	Cmp      string    `json:"cmp,omitempty"`
	Operands []Operand `json:"operands,omitempty"`
}

type SQLCase struct {
	C     *Crit             `json:"criteria"`
	Bound map[string]*m.Val `json:"bound"` // run-time environment (subset of the parameters)
	// a second run-time environment for the same compiled criteria (other values, possibly
	// other names bound); nil = none
	Bound2 map[string]*m.Val `json:"bound2,omitempty"`
	// Host: the run-time environments are Go structs (converted by the generated function itself)
	Host bool `json:"host,omitempty"`
	// Layered: the raw run-time environment is a chain of scopes (val.Env.Derive), the bindings
	// alternating between the outer and the inner one
	Layered bool `json:"layered,omitempty"`
	// Conc: after the sequential invocations the compiled criteria are rendered by four goroutines at
	// once, two per environment; every rendering must still be the tree over its OWN environment
	Conc bool `json:"conc,omitempty"`
}

var uType = m.Obj(m.Field{Name: "id", T: m.Num}, m.Field{Name: "name", T: m.Str}, m.Field{Name: "at", T: m.Time}, m.Field{Name: "ok", T: m.Bool})

var sqlSchema = map[string]*m.Type{
	"n1": m.Num, "n2": m.Num, "s1": m.Str, "s2": m.Str, "t1": m.Time, "b1": m.Bool,
	"pn": m.Num, "ps": m.Str, "pt": m.Time, "pb": m.Bool, "u": uType,
}

var hostileStrings = []string{"", "a", "it's", `"`, `""`, `\`, `\\`, `a"b`, `a\"b`, `" OR 1=1 --`, `") OR ("1"="1`, "`x`", "--", "/* */", "x AND y", "1 OR 1", "NULL", "line\nbreak", "tab\t", "nul\x00", "\x1b[0m", "é", "日本語", "😀", "%_", "\\\"", "'", "a\\", "`", "IN (1, 2)", "from_unixtime(0)", " ", "\x7f"}

func sqlNum(t *rapid.T) float64 {
	return pick2(t, []float64{0, math.Copysign(0, -1), 1e15, 1e16, 9007199254740992, 123456789012345680, 1, -1, 42, 0.5, -2.5, 1e-7, 123456.789, 9007199254740993, 9223372036854775808, 1e19, 1e21, -1e20, 1e-9, 3, 100, 2147483648, 0.1, 1e15 + 0.5, 5e-324, 1.797e308,
		// doubles that are exactly a float32 (a float32 host field widened by conversion)
		float64(float32(0.1)), float64(float32(19.99)), float64(float32(1) / 3), 18446744073709551616, float64(float32(16777217)), float64(float32(1e-7))})
}

func sqlValue(t *rapid.T, ty *m.Type) *m.Val {
	switch ty.K {
	case m.TNum:
		return m.VNum(sqlNum(t))
	case m.TStr:
		if rapid.IntRange(0, 3).Draw(t, "rawstr") == 0 {
			return m.VStr(rapid.StringOfN(rapid.RuneFrom([]rune("a\"\\'` \n;-(),é%_=x0")), 0, 8, -1).Draw(t, "s"))
		}
		return m.VStr(pick2(t, hostileStrings))
	case m.TBool:
		return m.VBool(rapid.Bool().Draw(t, "b"))
	case m.TTime:
		return m.VTime(m.TimeV{Unix: pick2(t, []int64{0, 1, 86400, 1600000000, 2147483648, -1}), Zone: "Local"})
	}
	panic("sqlValue")
}

type sqlGen struct {
	t     *rapid.T
	bound map[string]*m.Val
	pool  []*Crit // sub-criteria generated so far: one in five positions repeats one of them
}

func (g *sqlGen) operand(ty *m.Type) Operand {
	cols := map[m.TKind][]string{m.TNum: {"n1", "n2", "pn"}, m.TStr: {"s1", "s2", "ps"}, m.TTime: {"t1", "pt"}, m.TBool: {"b1", "pb"}}
	members := map[m.TKind]string{m.TNum: "id", m.TStr: "name", m.TTime: "at", m.TBool: "ok"}
	switch rapid.IntRange(0, 5).Draw(g.t, "operandkind") {
	case 0:
		return Operand{Kind: "name", Name: pick2(g.t, cols[ty.K])}
	case 1:
		if _, okk := g.bound["u"]; okk {
			return Operand{Kind: "member", Name: "u", Member: members[ty.K]}
		}
	}
	return Operand{Kind: "lit", V: sqlValue(g.t, ty), Spell: rapid.IntRange(0, 7).Draw(g.t, "spell")}
}

func (g *sqlGen) leaf() *Crit {
	ty := pick2(g.t, []*m.Type{m.Num, m.Num, m.Str, m.Str, m.Time, m.Bool})
	cols := map[m.TKind][]string{m.TNum: {"n1", "n2", "pn"}, m.TStr: {"s1", "s2", "ps"}, m.TTime: {"t1", "pt"}, m.TBool: {"b1", "pb"}}
	c := &Crit{Op: "leaf", Field: pick2(g.t, cols[ty.K])}
	var cmps []string
	switch ty.K {
	case m.TNum, m.TTime:
		cmps = []string{"=", "<>", ">", ">=", "<", "<=", "IN", "BETWEEN", "ISNULL"}
	case m.TStr:
		cmps = []string{"=", "<>", "LIKE", "IN", "ISNULL", "=", "LIKE"}
	default:
		cmps = []string{"=", "<>", "ISNULL"}
	}
	c.Cmp = pick2(g.t, cmps)
	switch c.Cmp {
	case "ISNULL":
	case "BETWEEN":
		c.Operands = []Operand{g.operand(ty), g.operand(ty)}
	case "IN":
		n := rapid.IntRange(1, 4).Draw(g.t, "nin")
		for i := 0; i < n; i++ {
			c.Operands = append(c.Operands, g.operand(ty))
		}
	default:
		c.Operands = []Operand{g.operand(ty)}
	}
	return c
}

func (g *sqlGen) crit(d int) *Crit {
	if len(g.pool) > 0 && rapid.IntRange(0, 4).Draw(g.t, "repeat") == 0 {
		// the same condition or group once more, under whatever parent comes here
		return g.pool[rapid.IntRange(0, len(g.pool)-1).Draw(g.t, "which")]
	}
	c := g.crit0(d)
	g.pool = append(g.pool, c)
	return c
}

func (g *sqlGen) crit0(d int) *Crit {
	if d <= 0 || rapid.IntRange(0, 3).Draw(g.t, "leaf") == 0 {
		return g.leaf()
	}
	switch rapid.IntRange(0, 4).Draw(g.t, "conn") {
	case 0, 1:
		return &Crit{Op: "AND", Kids: []*Crit{g.crit(d - 1), g.crit(d - 1)}}
	case 2, 3:
		return &Crit{Op: "OR", Kids: []*Crit{g.crit(d - 1), g.crit(d - 1)}}
	default:
		return &Crit{Op: "NOT", Kids: []*Crit{g.crit(d - 1)}}
	}
}

func genSQLCase(t *rapid.T) *SQLCase {
	g := &sqlGen{t: t, bound: map[string]*m.Val{}}
	for _, p := range []string{"pn", "ps", "pt", "pb"} {
		if rapid.Bool().Draw(t, "bind") {
			g.bound[p] = sqlValue(t, sqlSchema[p])
		}
	}
	if rapid.Bool().Draw(t, "bindu") {
		u := &m.Val{T: uType}
		for _, f := range uType.F {
			u.L = append(u.L, sqlValue(t, f.T))
		}
		if rapid.Bool().Draw(t, "permuteu") {
			u = gen.PermuteVal(t, u)
		}
		g.bound["u"] = u
	}
	c := &SQLCase{C: g.crit(rapid.IntRange(0, 5).Draw(t, "depth")), Bound: g.bound}
	c.Host = rapid.IntRange(0, 3).Draw(t, "host") == 0
	c.Layered = !c.Host && rapid.IntRange(0, 2).Draw(t, "layered") == 0
	if rapid.IntRange(0, 2).Draw(t, "second") == 0 {
		c.Bound2 = map[string]*m.Val{}
		for _, p := range []string{"pn", "ps", "pt", "pb"} {
			if rapid.Bool().Draw(t, "bind2") {
				c.Bound2[p] = sqlValue(t, sqlSchema[p])
			}
		}
		if _, hasU := g.bound["u"]; hasU {
			// member access on u is only generated when u is bound, so it stays bound
			u := &m.Val{T: uType}
			for _, f := range uType.F {
				u.L = append(u.L, sqlValue(t, f.T))
			}
			if rapid.Bool().Draw(t, "permuteu2") {
				u = gen.PermuteVal(t, u)
			}
			c.Bound2["u"] = u
		}
		c.Conc = rapid.IntRange(0, 3).Draw(t, "conc") == 0
	}
	return c
}

// ---- building the yae criteria

func numText(x float64) string { return strconv.FormatFloat(x, 'g', -1, 64) }

func operandAst(o Operand) ast.Expr {
	u := pos.Unknown
	switch o.Kind {
	case "name":
		return ast.Var(o.Name, u)
	case "member":
		return ast.Member(ast.Var(o.Name, u), ast.Var(o.Member, u), pos.UnknownCol, u)
	}
	switch o.V.T.K {
	case m.TNum:
		x := float64(o.V.N)
		if x >= 0 && x < 2147483648 && x == math.Trunc(x) {
			n := int64(x)
			switch o.Spell {
			case 1:
				return ast.Num(fmt.Sprintf("0x%X", n), u)
			case 2:
				return ast.Num(fmt.Sprintf("0o%o", n), u)
			case 3:
				return ast.Num(fmt.Sprintf("0b%b", n), u)
			case 4:
				return ast.Num(fmt.Sprintf("%d.0", n), u)
			case 5:
				return ast.Num(strconv.FormatFloat(x, 'e', -1, 64), u)
			}
		}
		return ast.Num(numText(x), u)
	case m.TStr:
		if o.Spell == 1 && !strings.ContainsAny(o.V.S, "`\r") && utf8.ValidString(o.V.S) {
			return ast.Str("`"+o.V.S+"`", u)
		}
		return ast.Str(strconv.Quote(o.V.S), u)
	case m.TBool:
		if o.V.B {
			return ast.True(u)
		}
		return ast.False(u)
	default:
		return ast.Time("'@"+strconv.FormatInt(o.V.Tm.Unix, 10)+"'", u)
	}
}

func toCriteria(c *Crit) ext.Criteria {
	switch c.Op {
	case "AND", "OR", "NOT":
		g := ext.CondGroup{LogicalOper: map[string]ext.LogicalOper{"AND": ext.AND, "OR": ext.OR, "NOT": ext.NOT}[c.Op]}
		for _, k := range c.Kids {
			g.Conds = append(g.Conds, toCriteria(k))
		}
		return g
	}
	cond := ext.Cond{Field: c.Field, Operator: c.Cmp}
	if c.Cmp == "IN" {
		els := make([]ast.Expr, len(c.Operands))
		for i, o := range c.Operands {
			els[i] = operandAst(o)
		}
		cond.Operands = []ast.Expr{ast.List(els, pos.Unknown)}
	} else {
		for _, o := range c.Operands {
			cond.Operands = append(cond.Operands, operandAst(o))
		}
	}
	return cond
}

// ---- expectations

var plainNumber = regexp.MustCompile(`^-?[0-9]+(\.[0-9]+)?$`)

func matchValue(tok ref.SQLTok, v *m.Val) error {
	switch v.T.K {
	case m.TStr:
		if tok.Kind != "str" {
			return fmt.Errorf("string operand %q appears as %s token %q, not as one quoted literal", v.S, tok.Kind, tok.Text)
		}
		if tok.Val != v.S {
			return fmt.Errorf("string operand %q reads back as %q from literal %s", v.S, tok.Val, tok.Text)
		}
	case m.TNum:
		x := float64(v.N)
		if tok.Kind != "num" || !plainNumber.MatchString(tok.Text) {
			return fmt.Errorf("number %s appears as %s token %q", m.FmtF(x), tok.Kind, tok.Text)
		}
		y, err := strconv.ParseFloat(tok.Text, 64)
		if err != nil || math.Float64bits(y) != math.Float64bits(x) && !(x == 0 && y == 0) {
			return fmt.Errorf("number %s appears as %q, which reads as %s", m.FmtF(x), tok.Text, m.FmtF(y))
		}
	case m.TBool:
		want := "0"
		if v.B {
			want = "1"
		}
		if tok.Kind != "num" || tok.Text != want {
			return fmt.Errorf("boolean %v appears as %q", v.B, tok.Text)
		}
	case m.TTime:
		if tok.Kind != "time" || tok.Val != strconv.FormatInt(v.Tm.Go().Unix(), 10) {
			return fmt.Errorf("time @%d appears as %q", v.Tm.Go().Unix(), tok.Text)
		}
	default:
		return fmt.Errorf("unsupported operand type %s", v.T)
	}
	return nil
}

func (c *SQLCase) matchName(tok ref.SQLTok, name string) error {
	if v, okk := c.Bound[name]; okk {
		if err := matchValue(tok, v); err != nil {
			return fmt.Errorf("bound name %s: %v", name, err)
		}
		return nil
	}
	if tok.Kind != "ident" || tok.Val != name {
		return fmt.Errorf("column %s appears as %s token %q", name, tok.Kind, tok.Text)
	}
	return nil
}

func (c *SQLCase) matchOperand(tok ref.SQLTok, o Operand) error {
	switch o.Kind {
	case "name":
		return c.matchName(tok, o.Name)
	case "member":
		return matchValue(tok, c.Bound[o.Name].Field(o.Member))
	}
	return matchValue(tok, o.V)
}

func flattenCrit(c *Crit) *Crit {
	if c.Op == "leaf" {
		return c
	}
	n := &Crit{Op: c.Op}
	for _, k := range c.Kids {
		fk := flattenCrit(k)
		if (c.Op == "AND" || c.Op == "OR") && fk.Op == c.Op {
			n.Kids = append(n.Kids, fk.Kids...)
		} else {
			n.Kids = append(n.Kids, fk)
		}
	}
	return n
}

func (c *SQLCase) matchTree(got *ref.SQLNode, want *Crit, path string) error {
	if got.Op != want.Op {
		return fmt.Errorf("at %s: the text reads as %s where the criteria have %s", path, got.Op, want.Op)
	}
	if want.Op != "leaf" {
		if len(got.Kids) != len(want.Kids) {
			return fmt.Errorf("at %s: %s combines %d conditions in the text, %d in the criteria", path, want.Op, len(got.Kids), len(want.Kids))
		}
		for i := range want.Kids {
			if err := c.matchTree(got.Kids[i], want.Kids[i], fmt.Sprintf("%s/%s%d", path, want.Op, i)); err != nil {
				return err
			}
		}
		return nil
	}
	if got.Cmp != want.Cmp {
		return fmt.Errorf("at %s: condition %s reads as %s", path, want.Cmp, got.Cmp)
	}
	if err := c.matchName(got.Field, want.Field); err != nil {
		return fmt.Errorf("at %s: %v", path, err)
	}
	if len(got.Operands) != len(want.Operands) {
		return fmt.Errorf("at %s: %d operands in the text, %d in the criteria", path, len(got.Operands), len(want.Operands))
	}
	for i, o := range want.Operands {
		if err := c.matchOperand(got.Operands[i], o); err != nil {
			return fmt.Errorf("at %s operand %d: %v", path, i, err)
		}
	}
	return nil
}

func critStats(c *Crit) (conns map[string]bool, depth int, hostile bool) {
	conns = map[string]bool{}
	var w func(x *Crit, d int)
	w = func(x *Crit, d int) {
		if d > depth {
			depth = d
		}
		if x.Op != "leaf" {
			conns[x.Op] = true
		}
		for _, o := range x.Operands {
			if o.Kind == "lit" && o.V.T.K == m.TStr {
				for _, ch := range o.V.S {
					if ch == '"' || ch == '\\' {
						hostile = true
					}
				}
			}
		}
		for _, k := range x.Kids {
			w(k, d+1)
		}
	}
	w(c, 0)
	return
}

// repeatsGroup: some AND / OR / NOT group occurs at two places of the tree.
func repeatsGroup(c *Crit) bool {
	seen := map[string]int{}
	var w func(x *Crit) string
	w = func(x *Crit) string {
		b, _ := json.Marshal(x)
		if x.Op != "leaf" {
			seen[string(b)]++
		}
		for _, k := range x.Kids {
			w(k)
		}
		return string(b)
	}
	w(c)
	for _, n := range seen {
		if n > 1 {
			return true
		}
	}
	return false
}

func checkSQL(c *SQLCase) *Outcome {
	var f func(v interface{}) (string, error)
	if p := run.Guard(func() { f = ext.CompileToSql(toCriteria(c.C), run.TypeEnv(sqlSchema)) }); p != nil {
		return bad("CompileToSql failed on well-typed criteria: %s", p.Text)
	}
	want := flattenCrit(c.C)
	envs := []map[string]*m.Val{c.Bound}
	if c.Bound2 != nil {
		envs = append(envs, c.Bound2, c.Bound)
	}
	mkEnv := func(bound map[string]*m.Val) interface{} {
		var envObj interface{}
		if c.Host && len(bound) > 0 {
			hv := map[string]*m.Val{}
			for n, v := range bound {
				hv[n] = v.Conform(nil)
			}
			envObj = run.EnvStruct(hv)
		} else {
			ve := val.NewEnv()
			inner := ve
			if c.Layered {
				inner = ve.Derive()
			}
			for i, n := range sortedNames(bound) {
				if i%2 == 0 {
					ve.Put(n, run.ToYaeVal(bound[n], nil))
				} else {
					inner.Put(n, run.ToYaeVal(bound[n], nil))
				}
			}
			envObj = inner
		}
		return envObj
	}
	render := func(round string, bound map[string]*m.Val) *Outcome {
		envObj := mkEnv(bound)
		var sql string
		var err error
		if p := run.Guard(func() { sql, err = f(envObj) }); p != nil {
			return bad("generating SQL panicked (invocation %s): %s", round, p.Text)
		}
		if err != nil {
			return bad("generating SQL failed (invocation %s): %v", round, err)
		}
		tree, rerr := ref.ReadSQL(sql)
		if rerr != nil {
			return bad("the WHERE text does not read as a boolean expression (invocation %s): %v\n text: %s", round, rerr, sql)
		}
		cc := *c
		cc.Bound = bound
		if err := cc.matchTree(tree, want, "$"); err != nil {
			return bad("invocation %s: %v\n text: %s\n reads as: %s", round, err, sql, tree)
		}
		return nil
	}
	for round, bound := range envs {
		if o := render(fmt.Sprint(round+1), bound); o != nil {
			return o
		}
	}
	if c.Conc && c.Bound2 != nil {
		// the same compiled criteria rendered by four goroutines at once (two per environment):
		// each text must be the tree over the environment it was given
		outs := make([]*Outcome, 4)
		var wg sync.WaitGroup
		for g := 0; g < 4; g++ {
			wg.Add(1)
			go func(g int) {
				defer wg.Done()
				bound := c.Bound
				if g%2 == 1 {
					bound = c.Bound2
				}
				for i := 0; i < 40 && outs[g] == nil; i++ {
					outs[g] = render(fmt.Sprintf("concurrent, goroutine %d, environment %d, rendering %d", g+1, g%2+1, i+1), bound)
				}
			}(g)
		}
		wg.Wait()
		for _, o := range outs {
			if o != nil {
				return o
			}
		}
	}
	conns, depth, hostile := critStats(c.C)
	classes := []string{fmt.Sprintf("depth:%d", depth)}
	if hostile {
		classes = append(classes, "string-with-quote-or-backslash")
	}
	if len(c.Bound) > 0 {
		classes = append(classes, "bound-names")
	}
	if c.Bound2 != nil {
		classes = append(classes, "second-environment")
	}
	if c.Conc && c.Bound2 != nil {
		classes = append(classes, "rendered-by-four-goroutines-at-once")
	}
	if c.Host {
		classes = append(classes, "environment-as-go-struct")
	}
	if c.Layered && len(c.Bound) > 0 {
		classes = append(classes, "environment-as-chain-of-scopes")
	}
	if repeatsGroup(c.C) {
		classes = append(classes, "repeated-group")
	}
	return ok(len(conns) >= 2 || hostile, classes...)
}

var c20 = Register(&Prop[SQLCase]{ID: "C20", Name: "sql-structure-and-quoting", Gen: genSQLCase, Check: checkSQL})

func TestC20(t *testing.T) {
	R.Rule = "criteria trees over AND / OR (binary) / NOT to depth 5 in every parent / child combination; leaves = <> > >= < <= on num / str / time / bool columns, IN lists, BETWEEN, LIKE, IS NULL; operands: literals (numbers also spelled in hex / octal / binary / with fraction or exponent, strings also as raw literals), names bound in the run-time environment (substituted by their values), names that are columns, member access on a bound object (its fields in a drawn order); one position in five repeats a condition or group generated earlier in the same tree; one case in three invokes the compiled criteria with a second environment and then the first again, and one in four of those then renders it from four goroutines at once (two per environment, 40 renderings each, every text judged against its own environment); one case in four passes the environments as Go structs, one in four as a chain of two scopes (val.Env.Derive) with the bindings spread over both; strings from a hostile pool (all three quote characters, backslashes, control characters, NUL, non-ASCII, SQL look-alikes) and random ones; finite numbers incl. > 2^53, >= 2^63, 1e21, 5e-324; oracle: the output is read back by a SQL reader with standard precedence (comparison, NOT, AND, OR) and, with same-connective nesting flattened, must be the criteria tree; each string operand is exactly one literal token that decodes to the operand, numbers are plain positional decimals that read back exactly, booleans 1 / 0, times from_unixtime(unix); non-trivial = >= 2 different connectives, or a string operand with a quote or backslash"
	R.Assume = []string{"ref.ReadSQL (harness) is standard SQL precedence; faithfulness of control-character escapes under a particular SQL dialect is not checked"}
	reportKnown(t, "C20")
	runRegress(t, "C20")
	c20.Run(t, budget(10000, 640000))
}
