package props

import (
	"fmt"
	"os"
	"reflect"
	"strings"
	"testing"
	"time"

	"github.com/goghcrow/yae"
	"github.com/goghcrow/yae/types"
	"github.com/goghcrow/yae/val"
	"pgregory.net/rapid"

	"verif/gen"
	m "verif/model"
	"verif/run"
)

// C12 — the public API is total: a value or an error, promptly, for every input.

type APICase struct {
	Src   string `json:"src"`
	Host  *H     `json:"host,omitempty"`  // environment as Go host data (nil: no environment)
	Fixed string `json:"fixed,omitempty"` // instead of Host: the name of a fixed host value (fixedHost: cyclic, recursive, over-deep, unsupported values that the generator cannot build)
	Kind  string `json:"kind,omitempty"`
}

const slowCall = 5 * time.Second

// timed runs f; a call slower than slowCall is repeated alone up to three times
// and reported only if it is slow every time.
func timed(name string, f func()) (p *run.Panic, slow error) {
	for attempt := 0; attempt < 4; attempt++ {
		t0 := time.Now()
		p = run.Guard(f)
		d := time.Since(t0)
		if d < slowCall {
			return p, nil
		}
		slow = fmt.Errorf("%s took %s (attempt %d)", name, d.Round(time.Millisecond), attempt+1)
	}
	return p, slow
}

func apiEnv(c *APICase) (v interface{}, okk bool) {
	if c.Fixed != "" {
		mk, found := fixedHost[c.Fixed]
		if !found {
			return nil, false
		}
		v, _ = mk()
		return v, true
	}
	if c.Host == nil {
		return nil, true
	}
	var out interface{}
	if p := run.Guard(func() { out = c.Host.goValue().Interface() }); p != nil {
		return nil, false
	}
	return out, true
}

// sameGoTypeVariants: values of the very Go type of env (a struct or a pointer to one) whose
// yae type is another one: the zero value (nil pointers / slices / maps, nil interfaces), and
// copies in which every interface{} field holds a long string, a list, a number.
func sameGoTypeVariants(env interface{}) []interface{} {
	if env == nil {
		return nil
	}
	rv := reflect.ValueOf(env)
	st := rv.Type()
	ptr := st.Kind() == reflect.Ptr
	if ptr {
		if rv.IsNil() {
			return nil
		}
		st = st.Elem()
		rv = rv.Elem()
	}
	if st.Kind() != reflect.Struct {
		return nil
	}
	wrap := func(v reflect.Value) interface{} {
		if ptr {
			p := reflect.New(st)
			p.Elem().Set(v)
			return p.Interface()
		}
		return v.Interface()
	}
	out := []interface{}{wrap(reflect.Zero(st))}
	for _, filler := range []interface{}{strings.Repeat("A", 64), []interface{}{1.0}, 7.0, map[string]interface{}{"a": true}} {
		cp := reflect.New(st).Elem()
		cp.Set(rv)
		changed := false
		for i := 0; i < st.NumField(); i++ {
			if st.Field(i).Type.Kind() == reflect.Interface && st.Field(i).Type.NumMethod() == 0 && cp.Field(i).CanSet() {
				cp.Field(i).Set(reflect.ValueOf(filler))
				changed = true
			}
		}
		if changed {
			out = append(out, wrap(cp))
		}
	}
	return out
}

func checkAPI(c *APICase) *Outcome {
	env, okk := apiEnv(c)
	if !okk {
		return skip("harness:host-value-not-constructible")
	}
	var desc string
	if c.Fixed != "" {
		desc = fmt.Sprintf("src %q env fixed host value %q", c.Src, c.Fixed) // may be cyclic: not printable
	} else {
		desc = fmt.Sprintf("src %q env %#v", c.Src, env)
	}
	if len(desc) > 1200 {
		desc = desc[:1200] + "..."
	}
	accepted, evaluated := false, false
	// Eval
	var ev *val.Val
	var eerr error
	p, slow := timed("Eval", func() { ev, eerr = yae.Eval(c.Src, env) })
	if p != nil {
		return bad("Eval panicked instead of returning an error: %s (%s)", p.Text, desc)
	}
	if slow != nil {
		return bad("not prompt: %v (%s)", slow, desc)
	}
	if eerr == nil {
		evaluated = true
		if ev == nil {
			return bad("Eval returned neither a value nor an error (%s)", desc)
		}
	}
	// Compile on two back ends, then the Callable with the same and with another environment
	for _, closureBE := range []bool{false, true} {
		e := yae.NewExpr()
		if closureBE {
			e.UseClosureCompiler()
		}
		var callable yae.Callable
		var cerr error
		p, slow = timed("Compile", func() { callable, cerr = e.Compile(c.Src, env) })
		if p != nil {
			return bad("Compile panicked instead of returning an error: %s (%s)", p.Text, desc)
		}
		if slow != nil {
			return bad("not prompt: %v (%s)", slow, desc)
		}
		if cerr != nil {
			continue
		}
		accepted = true
		if callable == nil {
			return bad("Compile returned neither a Callable nor an error (%s)", desc)
		}
		others := []interface{}{env, map[string]interface{}{"zz": 1}, nil, 42, struct{ X chan int }{},
			// raw environments handed over directly: a chain of scopes, a typed nil, an empty one
			val.NewEnv().Derive(), (*val.Env)(nil), val.NewEnv(), (*types.Env)(nil), types.NewEnv()}
		if c.Fixed == "" {
			// the hostile fixed values as run-time environment of a Callable compiled against something else
			for _, n := range []string{"recursive-type-nil-link", "cyclic-map", "nested-101"} {
				v, _ := fixedHost[n]()
				others = append(others, v)
			}
		}
		others = append(others, sameGoTypeVariants(env)...)
		for _, other := range others {
			var rv *val.Val
			var rerr error
			p, slow = timed("Callable", func() { rv, rerr = callable(other) })
			if p != nil {
				return bad("the Callable panicked instead of returning an error: %s (run-time env %T; %s)", p.Text, other, desc)
			}
			if slow != nil {
				return bad("not prompt: %v (%s)", slow, desc)
			}
			if rerr == nil && rv == nil {
				return bad("the Callable returned neither a value nor an error (%s)", desc)
			}
		}
	}
	// Debug
	var derr error
	p, slow = timed("Debug", func() { _, _, derr = yae.Debug(c.Src, env) })
	if p != nil {
		return bad("Debug panicked instead of returning an error: %s (%s)", p.Text, desc)
	}
	if slow != nil {
		return bad("not prompt: %v (%s)", slow, desc)
	}
	_ = derr
	// the same source with white space / line breaks around it: a value or an error as well
	// (debug mode documents that it takes single-line sources; it refuses others by an error)
	if accepted {
		for _, pad := range [][2]string{{"", "\n"}, {"", "\r\n"}, {"\n", ""}, {" \t", " \n "}, {"", "\r"}} {
			src := pad[0] + c.Src + pad[1]
			for name, f := range map[string]func(){
				"Debug": func() { _, _, _ = yae.Debug(src, env) },
				"Eval":  func() { _, _ = yae.Eval(src, env) },
			} {
				if pp := run.Guard(f); pp != nil {
					return bad("%s panicked instead of returning an error on a source with surrounding white space %q: %s (%s)", name, src, pp.Text, desc)
				}
			}
		}
	}
	classes := []string{"kind:" + c.Kind}
	switch {
	case evaluated:
		classes = append(classes, "accepted-and-evaluated")
	case accepted:
		classes = append(classes, "accepted-evaluation-fails")
	default:
		classes = append(classes, "rejected")
	}
	if c.Fixed != "" {
		classes = append(classes, "fixed-host-env:"+c.Fixed)
	}
	if c.Host != nil {
		classes = append(classes, "with-host-env")
	}
	nontrivial := accepted || evaluated || (len(strings.Fields(c.Src)) > 1)
	return ok(nontrivial, classes...)
}

var seedPrograms = []string{
	`1 + 2 * 3`, `"a" + "b"`, `if(true, 1, 2)`, `true ? 1 : 2`, `[1, 2, 3][0]`, `["a": 1]["a"]`, `{a: 1, b: "x"}.b`, `len([1,2,3])`, `max([1,2,3])`, `[1][5]`, `5 % 0`,
	`match("(", "x")`, `get([1], 0-1, 0)`, `union([1,2],[2,3])`, `string([1: "a"])`, `'2020-01-01' < '2020-01-02'`, `strtotime("2020-01-01")`, `isset(["a": 1], "b")`,
	`!true || false && 1 == 1`, `1 < 2 < 3`, `abs(0-1).max(2)`, `[[1,2],[3]][1][0]`, `[:]`, `[]`, `{}`, `print(1)`, `0x1F + 0b11 + 0o7 + 1e3 + 1.5`, "`raw`", `"é\n"`,
	`a + b`, `x.y.z`, `f(1)(2)`, `not true`, `true and false or true`, `[1,2,3,]`, `{a: {b: {c: [1, [2, [3]]]}}}.a.b.c[1][1][0]`, `1 ? 2 : 3`, `get(m, "k", 0)`,
}

var editTokens = []string{"(", ")", "[", "]", "{", "}", ",", ":", "?", ".", "+", "-", "*", "==", "!", "&&", "||", "1", "a", `"s"`, "'t'", "true", "if", "[:]", "1e999", "0x", `"\q"`, `"`, "`", "'", " ", "\n", "\x00", "名", "💥", "..", "?."}

func genAPICase(t *rapid.T) *APICase {
	c := &APICase{}
	maxLen := 256
	if Tier == "thorough" {
		maxLen = 4096
	}
	switch rapid.IntRange(0, 6).Draw(t, "srckind") {
	case 0:
		c.Kind = "random-bytes"
		c.Src = string(rapid.SliceOfN(rapid.Byte(), 0, 40).Draw(t, "bytes"))
	case 1:
		c.Kind = "random-runes"
		c.Src = rapid.StringOfN(rapid.RuneFrom([]rune("ab1 0.e?x<=->!&|\"'`\\\n\tué名(){}[],:+*/%^~@#$_5if")), 0, 50, -1).Draw(t, "runes")
	case 2:
		c.Kind = "token-soup"
		n := rapid.IntRange(1, 25).Draw(t, "n")
		parts := make([]string, n)
		for i := range parts {
			parts[i] = pick2(t, editTokens)
		}
		c.Src = strings.Join(parts, pick2(t, []string{" ", "", " "}))
	case 3, 4:
		c.Kind = "edited-program"
		base := pick2(t, seedPrograms)
		if rapid.Bool().Draw(t, "generated") {
			g := gen.NewG(t, gen.ProgOpt{Fuel: 3, Partial: true, Sugar: true, Maybe: false, Times: true})
			base = m.Print(g.Expr(g.AnyResultType()), m.PrintOpt{})
		}
		rs := []rune(base)
		for k := rapid.IntRange(0, 3).Draw(t, "nedits"); k > 0; k-- {
			pos := rapid.IntRange(0, len(rs)).Draw(t, "pos")
			switch rapid.IntRange(0, 3).Draw(t, "edit") {
			case 0:
				rs = append(rs[:pos:pos], append([]rune(pick2(t, editTokens)), rs[pos:]...)...)
			case 1:
				if pos < len(rs) {
					rs = append(rs[:pos:pos], rs[pos+1:]...)
				}
			case 2:
				if pos < len(rs) {
					end := pos + rapid.IntRange(1, 6).Draw(t, "duplen")
					if end > len(rs) {
						end = len(rs)
					}
					seg := append([]rune(nil), rs[pos:end]...)
					rs = append(rs[:end:end], append(seg, rs[end:]...)...)
				}
			default:
				if pos+1 < len(rs) {
					rs[pos], rs[pos+1] = rs[pos+1], rs[pos]
				}
			}
		}
		c.Src = string(rs)
	case 5:
		c.Kind = "bracket-nest"
		depth := rapid.IntRange(1, 12).Draw(t, "nest")
		var open, cl strings.Builder
		for i := 0; i < depth; i++ {
			switch rapid.IntRange(0, 5).Draw(t, "br") {
			case 0:
				open.WriteString("[")
				cl.WriteString("]")
			case 1:
				open.WriteString("(")
				cl.WriteString(")")
			case 2:
				open.WriteString("{a:")
				cl.WriteString("}")
			case 3:
				open.WriteString("[1:")
				cl.WriteString("]")
			case 4:
				open.WriteString("f(")
				cl.WriteString(")")
			default:
				open.WriteString("[")
			}
		}
		closing := cl.String()
		rc := []rune(closing)
		for i, j := 0, len(rc)-1; i < j; i, j = i+1, j-1 {
			rc[i], rc[j] = rc[j], rc[i]
		}
		c.Src = open.String() + pick2(t, []string{"1", "", "a", ","}) + string(rc)
	default:
		c.Kind = "valid-program"
		c.Src = pick2(t, seedPrograms)
	}
	if len(c.Src) > maxLen {
		c.Src = c.Src[:maxLen]
	}
	if rapid.IntRange(0, 7).Draw(t, "withfixed") == 0 {
		c.Fixed = pick2(t, fixedHostNames())
	} else if rapid.IntRange(0, 2).Draw(t, "withhost") == 0 {
		g := &hostGen{t: t, errProb: 8}
		ty := g.typ(rapid.IntRange(0, 3).Draw(t, "hdepth"))
		c.Host = g.fill(ty, true)
	}
	return c
}

var c12 = Register(&Prop[APICase]{ID: "C12", Name: "api-total", Gen: genAPICase, Check: checkAPI})

// ---- accepted programs over a host struct, the Callable then given OTHER values of the very
// same Go struct type (interface{} fields / untagged pointer fields: one Go type, many yae types):
// the zero value, the fields holding one another's values, strings / lists / numbers / maps.
// Whatever the Callable decides, it returns - no panic, no crash of the process.

func checkHostProgramAPI(c *ProgCase) *Outcome {
	r := refRun(c)
	if r.RefErr != nil {
		return skip("harness:reference-rejects-generated-program")
	}
	if !run.HostableEnv(c.Env) || hasFunEnv(c) {
		return skip("env-not-hostable")
	}
	vals := conformAll(c.Vals)
	forms := 0
	for _, form := range []string{"dyn", "ptr"} {
		var host interface{}
		var okh bool
		if form == "dyn" {
			host, okh = run.EnvStructDyn(vals)
		} else {
			host, okh = run.EnvStructPtr(vals)
		}
		if !okh {
			continue
		}
		forms++
		for _, closureBE := range []bool{false, true} {
			e := yae.NewExpr()
			if closureBE {
				e.UseClosureCompiler()
			}
			var callable yae.Callable
			var cerr error
			if p := run.Guard(func() { callable, cerr = e.Compile(r.Src, host) }); p != nil {
				return bad("Compile panicked instead of returning an error: %s\n src: %s\n env: %s", p.Text, r.Src, envSummary(c))
			}
			if cerr != nil {
				continue // harness functions etc.: not this class's subject
			}
			others := append([]interface{}{host}, sameGoTypeVariants(host)...)
			// the fields holding one another's values
			rv := reflect.ValueOf(host)
			for shift := 1; shift < rv.NumField() && shift <= 2; shift++ {
				cp := reflect.New(rv.Type()).Elem()
				okc := true
				for i := 0; i < rv.NumField(); i++ {
					src := rv.Field((i + shift) % rv.NumField())
					if !src.Type().AssignableTo(cp.Field(i).Type()) {
						okc = false
						break
					}
					cp.Field(i).Set(src)
				}
				if okc {
					others = append(others, cp.Interface())
				}
			}
			for _, other := range others {
				var rvv *val.Val
				var rerr error
				p, slow := timed("Callable", func() { rvv, rerr = callable(other) })
				if p != nil {
					return bad("the Callable panicked instead of returning an error: %s (run-time env %#v)\n src: %s\n env: %s", p.Text, other, r.Src, envSummary(c))
				}
				if slow != nil {
					return bad("not prompt: %v\n src: %s", slow, r.Src)
				}
				if rerr == nil && rvv == nil {
					return bad("the Callable returned neither a value nor an error\n src: %s", r.Src)
				}
			}
		}
	}
	return ok(forms > 0 && len(c.Env) > 0, "host-struct-programs")
}

// ---- every numeric built-in over boundary operands (as literals): the call returns - a value or
// an error - within the time limit, on the VM (Eval) and on the closure back end

type BoundaryCase struct {
	Op string `json:"op"`
	A  int    `json:"a"` // index into boundaryNums
	B  int    `json:"b"`
}

var boundaryNums = []string{"0", "1", "(-1)", "0.5", "(-0.5)", "2", "(-2)", "10", "9007199254740992", "9007199254740993", "4611686018427387904", "(-4611686018427387904)",
	"9223372036854775807", "9223372036854775808", "(-9223372036854775808)", "(-9223372036854775809)", "18446744073709551616", "1e19", "1e308", "(-1e308)", "5e-324", "1e-310", "(0 / 0)", "(1 / 0)", "(-1 / 0)"}

var boundaryOps = []string{"+", "-", "*", "/", "%", "^", "max", "min", "==", "<", "round", "floor", "ceil", "abs", "string"}

func checkBoundary(c *BoundaryCase) *Outcome {
	if c.A < 0 || c.A >= len(boundaryNums) || c.B < 0 || c.B >= len(boundaryNums) {
		return skip("bad-index")
	}
	a, b := boundaryNums[c.A], boundaryNums[c.B]
	var src string
	switch c.Op {
	case "max", "min":
		src = c.Op + "(" + a + ", " + b + ")"
	case "round", "floor", "ceil", "abs", "string":
		src = c.Op + "(" + a + " ^ " + b + ")"
	default:
		src = a + " " + c.Op + " " + b
	}
	for _, closureBE := range []bool{false, true} {
		done := make(chan *run.Panic, 1)
		go func() {
			done <- run.Guard(func() {
				if closureBE {
					if cl, err := yae.NewExpr().UseClosureCompiler().Compile(src, nil); err == nil {
						_, _ = cl(nil)
					}
				} else {
					_, _ = yae.Eval(src, nil)
				}
			})
		}()
		select {
		case p := <-done:
			if p != nil {
				return bad("evaluating %s panicked instead of returning an error: %s", src, p.Text)
			}
		case <-time.After(20 * time.Second):
			return bad("evaluating %s does not return (still running after 20 s; closure back end: %v): the host is blocked", src, closureBE)
		}
	}
	return ok(true, "boundary-operands:"+c.Op)
}

var c12boundary = Register(&Prop[BoundaryCase]{ID: "C12", Name: "boundary-operands", Check: checkBoundary})

var c12hostOpt = gen.ProgOpt{Fuel: 3, Partial: true, Sugar: true, Maybe: false, Times: true, HostEnv: true}
var c12host = Register(&Prop[ProgCase]{ID: "C12", Name: "api-total-same-go-type", Gen: genProgCase(c12hostOpt, nil), Check: checkHostProgramAPI})

// ---- scaling: compile cost against nesting depth

type ScaleCase struct {
	Open  string `json:"open"`
	Close string `json:"close"`
	Atom  string `json:"atom"`
	Tail  string `json:"tail,omitempty"`
}

func compileCost(src string) (time.Duration, error) {
	best := time.Duration(1 << 62)
	var cerr error
	for i := 0; i < 3; i++ {
		e := yae.NewExpr()
		t0 := time.Now()
		p := run.Guard(func() { _, cerr = e.Compile(src, nil) })
		d := time.Since(t0)
		if p != nil {
			return d, fmt.Errorf("panic: %s", p.Text)
		}
		_ = cerr
		if d < best {
			best = d
		}
		if d > 2*time.Second {
			break
		}
	}
	return best, nil
}

func checkScale(c *ScaleCase) *Outcome {
	type pt struct {
		d int
		t time.Duration
	}
	var pts []pt
	for d := 2; d <= 60; d += 2 {
		src := strings.Repeat(c.Open, d) + c.Atom + strings.Repeat(c.Close, d) + c.Tail
		if len(src) > 4096 {
			break
		}
		t, err := compileCost(src)
		if err != nil {
			return bad("Compile of %d nested %q: %v", d, c.Open, err)
		}
		pts = append(pts, pt{d, t})
		if t > 8*time.Second {
			break
		}
	}
	// exponential growth: from depth 12 on, the cost grows by more than 2.5x for
	// every two further levels (a polynomial of degree <= 5 stays below that),
	// over at least four consecutive steps that are above timer noise
	streak := 0
	for i := 1; i < len(pts); i++ {
		if pts[i-1].d >= 12 && pts[i-1].t > 200*time.Microsecond && float64(pts[i].t) > 2.5*float64(pts[i-1].t) {
			streak++
			if streak >= 4 {
				var b strings.Builder
				for _, p := range pts {
					fmt.Fprintf(&b, "%d:%s ", p.d, p.t.Round(time.Microsecond))
				}
				return bad("compile time grows exponentially with the nesting depth of %q: depth:time %s", c.Open+c.Atom+c.Close, b.String())
			}
		} else {
			streak = 0
		}
	}
	return ok(true, "scaling:"+c.Open)
}

var c12scale = Register(&Prop[ScaleCase]{ID: "C12", Name: "compile-scaling", Check: checkScale})

var scaleCases = []*ScaleCase{
	// nests: open^d atom close^d
	{"[", "]", "1", ""}, {"(", ")", "1", ""}, {"{a:", "}", "1", ""}, {"[1:", "]", "1", ""}, {"f(", ")", "1", ""}, {"-", "", "1", ""}, {"!", "", "true", ""},
	{"[[", "]]", "1", ""}, {"[(", ")]", "1", ""}, {"true ? 1 : (", ")", "1", ""}, {"1 + (", ")", "1", ""}, {"[1, ", "]", "1", ""}, {"a.b(", ")", "1", ""}, {"x[", "]", "0", ""}, {"[", "]", "", ""},
	{"[", "", "1", ""}, {"[[1]:", "]", "1", ""}, {"{a:[", "]}", "1", ""}, {"if(true, 1, ", ")", "1", ""}, {"x.f(", ")", "1", ""}, {"[x.f(", ")]", "1", ""},
	// chains: atom suffix^d
	{"", ".f()", "x", ""}, {"", ".a", "x", ""}, {"", "[0]", "x", ""}, {"", "(1)", "f", ""}, {"", " + 1", "1", ""}, {"", " ^ 2", "2", ""}, {"", " && true", "true", ""},
	{"", " ? 1 : 2", "true", ""}, {"", ".f(1).g", "x", ""}, {"", ".f(x.g())", "x", ""}, {"", " == 1", "1", ""}, {"", ", 1", "[1", "]"}, {"", ", a: 1", "{a: 1", "}"}, {"", ", 1: 1", "[1: 1", "]"},
	{"", ", 1", "f(1", ")"}, {"", " 1", "1", ""}, {"", "\"a\" + ", "\"b\"", ""}, {"", "'t' ", "'t'", ""}, {"", "`r`.f().", "x", "g"},
	// prefix chains
	{"x.f().", "", "g()", ""}, {"1 ? 2 : ", "", "3", ""}, {"true ? ", " : 0", "1", ""}, {"- -", "", "1", ""}, {"not ", "", "true", ""},
}

// (Sources stay below about 70 KB: the lexer is quadratic in the source length - polynomial, so
// no violation - and a 130 KB source took longer than the 180 s watchdog when sixteen shards ran at
// once, which the driver would report as a hang.)
// ---- sources at the VM's encoding capacities, through the public API: whatever Compile
// decides (a Callable or an error), every call returns; a call that does not return is
// caught by the per-case watchdog and reported as a violation of C12 by the driver.

type CapacityCase struct {
	Kind string `json:"kind"`
	N    int    `json:"n"`
	Sel  bool   `json:"sel,omitempty"`
}

func checkCapacity(c *CapacityCase) *Outcome {
	src := m.Print(gen.StressFixed(c.Kind, c.N, c.Sel), m.PrintOpt{})
	desc := fmt.Sprintf("stress program %s n=%d sel=%v (%d bytes of source)", c.Kind, c.N, c.Sel, len(src))
	accepted := false
	for _, closureBE := range []bool{false, true} {
		e := yae.NewExpr()
		if closureBE {
			e.UseClosureCompiler()
		}
		var callable yae.Callable
		var cerr error
		t0 := time.Now()
		if p := run.Guard(func() { callable, cerr = e.Compile(src, nil) }); p != nil {
			return bad("Compile panicked instead of returning an error: %s (%s)", p.Text, desc)
		}
		compileTime := time.Since(t0)
		if cerr != nil {
			continue
		}
		accepted = true
		// evaluation needs at most one step per emitted instruction: it cannot take longer than
		// compiling did by more than a small factor. The allowance is relative to the compile time
		// measured just before, so that a loaded machine does not turn slowness into a verdict.
		allow := 20 * compileTime
		if allow < 30*time.Second {
			allow = 30 * time.Second
		}
		for i := 0; i < 2; i++ {
			type res struct {
				v   *val.Val
				err error
				p   *run.Panic
			}
			done := make(chan res, 1)
			go func() {
				var r res
				r.p = run.Guard(func() { r.v, r.err = callable(nil) })
				done <- r
			}()
			select {
			case r := <-done:
				if r.p != nil {
					return bad("the Callable panicked instead of returning an error: %s (%s)", r.p.Text, desc)
				}
				if r.err == nil && r.v == nil {
					return bad("the Callable returned neither a value nor an error (%s)", desc)
				}
			case <-time.After(allow):
				return bad("the Callable did not return within %s (compiling the same source took %s): the host is blocked (%s)", allow, compileTime.Round(time.Millisecond), desc)
			}
		}
	}
	return ok(accepted, "capacity-source:"+c.Kind, fmt.Sprintf("capacity-source-accepted:%v", accepted))
}

var c12capacity = Register(&Prop[CapacityCase]{ID: "C12", Name: "capacity-sources", Check: checkCapacity})

func capacityCases() []*CapacityCase {
	cs := []*CapacityCase{
		{Kind: "long-arms", N: 5457, Sel: false}, {Kind: "long-arms", N: 5458, Sel: true}, {Kind: "long-then", N: 16381}, {Kind: "long-then", N: 16382}, {Kind: "long-then", N: 16383},
	}
	if Tier == "thorough" || os.Getenv("VERIF_CAPACITY_ALL") != "" {
		cs = append(cs, &CapacityCase{Kind: "long-arms", N: 5400}, &CapacityCase{Kind: "long-arms", N: 5470}, &CapacityCase{Kind: "long-arms", N: 5600, Sel: true},
			&CapacityCase{Kind: "wide-list", N: 22000}, &CapacityCase{Kind: "deep-right", N: 1500}, &CapacityCase{Kind: "nested-logic", N: 1500},
			&CapacityCase{Kind: "nested-thunks", N: 1000}, &CapacityCase{Kind: "wide-obj", N: 8000}, &CapacityCase{Kind: "wide-map", N: 8000})
		// the selected arm ends within a few instructions of byte 65 536: every alignment of the jump over the other arm
		for n := 16380; n <= 16400; n++ {
			cs = append(cs, &CapacityCase{Kind: "long-then", N: n, Sel: n%2 == 1})
		}
	}
	return cs
}

// ---- scaling of evaluation (and of the whole compile pipeline incl. type checker and code
// generation) against nesting depth, per back end, over closed programs that are accepted

type EvalScaleCase struct {
	Open      string `json:"open"`
	Close     string `json:"close"`
	Atom      string `json:"atom"`
	AtomOpen  string `json:"atom_open,omitempty"`  // atom = AtomOpen^d + Atom + AtomClose^d
	AtomClose string `json:"atom_close,omitempty"` //
}

func (c *EvalScaleCase) src(d int) string {
	return strings.Repeat(c.Open, d) + strings.Repeat(c.AtomOpen, d) + c.Atom + strings.Repeat(c.AtomClose, d) + strings.Repeat(c.Close, d)
}

type scalePt struct {
	d int
	t time.Duration
}

// growsExponentially: from depth 12 on more than 2.5x per two levels over four consecutive
// steps, or from depth 30 on more than 1.7x per two levels over five consecutive steps
// ((32/30)^p < 1.7 for every degree p <= 8), each step above timer noise.
func growsExponentially(pts []scalePt) bool {
	s1, s2 := 0, 0
	for i := 1; i < len(pts); i++ {
		a, b := pts[i-1], pts[i]
		if a.d >= 12 && a.t > 200*time.Microsecond && float64(b.t) > 2.5*float64(a.t) {
			s1++
		} else {
			s1 = 0
		}
		if a.d >= 30 && a.t > 200*time.Microsecond && float64(b.t) > 1.7*float64(a.t) {
			s2++
		} else {
			s2 = 0
		}
		if s1 >= 4 || s2 >= 5 {
			return true
		}
	}
	return false
}

func ptsText(pts []scalePt) string {
	var b strings.Builder
	for _, p := range pts {
		fmt.Fprintf(&b, "%d:%s ", p.d, p.t.Round(time.Microsecond))
	}
	return b.String()
}

func checkEvalScale(c *EvalScaleCase) *Outcome {
	accepted := 0
	for _, be := range run.AllBackends {
		var cpts, epts []scalePt
		for d := 2; d <= 60; d += 2 {
			src := c.src(d)
			if len(src) > 4096 {
				break
			}
			bestC, bestE := time.Duration(1<<62), time.Duration(1<<62)
			compiled := false
			for rep := 0; rep < 3; rep++ {
				en := run.NewEngine(be, run.StdHarness)
				var call yae.Callable
				var cerr error
				t0 := time.Now()
				p := run.Guard(func() { call, cerr = en.E.Compile(src, nil) })
				dc := time.Since(t0)
				if p != nil {
					return bad("%s: Compile of %q panics: %s", be, src, p.Text)
				}
				if dc < bestC {
					bestC = dc
				}
				if cerr != nil {
					break
				}
				compiled = true
				t1 := time.Now()
				p = run.Guard(func() { _, _ = call(nil) })
				de := time.Since(t1)
				if p != nil {
					return bad("%s: evaluation of %q panics: %s", be, src, p.Text)
				}
				if de < bestE {
					bestE = de
				}
				if dc+de > 2*time.Second {
					break
				}
			}
			cpts = append(cpts, scalePt{d, bestC})
			if compiled {
				accepted++
				epts = append(epts, scalePt{d, bestE})
			}
			if bestC > 8*time.Second || (compiled && bestE > 8*time.Second) {
				break
			}
		}
		if growsExponentially(cpts) {
			return bad("%s: compile time grows exponentially with the repetition count of %q: depth:time %s", be, c.src(1), ptsText(cpts))
		}
		if growsExponentially(epts) {
			return bad("%s: evaluation time grows exponentially with the repetition count of %q: depth:time %s", be, c.src(1), ptsText(epts))
		}
	}
	if accepted == 0 {
		return ok(false, "eval-scaling:not-accepted", "eval-scaling-not-accepted:"+c.src(1))
	}
	return ok(true, "eval-scaling:accepted")
}

var c12evalscale = Register(&Prop[EvalScaleCase]{ID: "C12", Name: "eval-scaling", Check: checkEvalScale})

var evalScaleCases = []*EvalScaleCase{
	// conditionals and short-circuit operators, selected / unselected / condition position
	{Open: "if(true, 1, ", Close: ")", Atom: "1"}, {Open: "if(false, 1, ", Close: ")", Atom: "1"}, {Open: "if(true, ", Close: ", 0)", Atom: "1"},
	{Open: "if(", Close: ", true, false)", Atom: "true"}, {Open: "if(", Close: ", false, true)", Atom: "false"},
	{Open: "(true && ", Close: ")", Atom: "true"}, {Open: "(false || ", Close: ")", Atom: "true"}, {Open: "(", Close: " && true)", Atom: "true"}, {Open: "(", Close: " || false)", Atom: "false"},
	{Close: " && true", Atom: "true"}, {Close: " || false", Atom: "false"}, {Open: "true && ", Atom: "true"}, {Open: "false || ", Atom: "false"},
	{Open: "false ? 1 : ", Atom: "3"}, {Open: "true ? ", Close: " : 0", Atom: "1"}, {Open: "(true ? true : false) ? ", Close: " : 0", Atom: "1"},
	{Open: "!", Atom: "true"}, {Open: "!(", Close: " && true)", Atom: "true"},
	// user-registered lazy functions
	{Open: "lz_if(true, ", Close: ", 0)", Atom: "1"}, {Open: "lz_if(false, 0, ", Close: ")", Atom: "1"}, {Open: "lz_if(", Close: ", true, false)", Atom: "true"}, {Open: "lz_and(true, ", Close: ")", Atom: "true"},
	{Open: "if(lz_and(true, ", Close: "), true, false)", Atom: "true"},
	// total functions with defaults
	{Open: "get([1], 0, ", Close: ")", Atom: "1"}, {Open: "get([1], 5, ", Close: ")", Atom: "1"}, {Open: "get([1: 1], 2, ", Close: ")", Atom: "1"}, {Open: "get([", Close: "], 0, 2)", Atom: "1"},
	// strict calls, host calls, arithmetic
	{Open: "-", Atom: "1"}, {Open: "- -", Atom: "1"}, {Open: "abs(", Close: ")", Atom: "1"}, {Open: "string(", Close: ")", Atom: "1"}, {Open: "len([", Close: "])", Atom: "1"},
	{Open: "tr(1, ", Close: ")", Atom: "1"}, {Open: "hsub(1, ", Close: ")", Atom: "1"}, {Open: "hsub(", Close: ", 1)", Atom: "1"}, {Open: "hpair(", Close: ", 1)[0]", Atom: "1"},
	{Open: "1 + (", Close: ")", Atom: "1"}, {Close: " + 1", Atom: "1"}, {Close: " ^ 1", Atom: "2"}, {Open: "\"a\" + ", Atom: "\"b\""}, {Open: "max(1, ", Close: ")", Atom: "1"}, {Open: "max(", Close: ", min(1, 2))", Atom: "1"},
	{Open: "(1 == 1) == (", Close: ")", Atom: "true"}, {Open: "((", Close: " < 2) ? 1 : 0)", Atom: "1"},
	// literals
	{Open: "[", Close: "]", Atom: "1"}, {Open: "[[", Close: "]]", Atom: "1"}, {Open: "[1: ", Close: "]", Atom: "1"}, {Open: "{a: ", Close: "}", Atom: "1"}, {Open: "{a: 1, b: ", Close: "}", Atom: "1"}, {Open: "(", Close: ")", Atom: "1"},
	{Open: "len(union([", Close: "], []))", Atom: "1"}, {Open: "len(intersect([1], [", Close: "]))", Atom: "1"}, {Open: "string({a: ", Close: "})", Atom: "1"},
	// selectors over nested literals
	{Close: "[0]", Atom: "1", AtomOpen: "[", AtomClose: "]"}, {Close: ".a", Atom: "1", AtomOpen: "{a: ", AtomClose: "}"}, {Close: "[1]", Atom: "1", AtomOpen: "[1: ", AtomClose: "]"},
	{Close: ".a[0]", Atom: "1", AtomOpen: "{a: [", AtomClose: "]}"},
	// nesting in the index / key / position operand of a selector
	{Open: "[0][", Close: "]", Atom: "0"}, {Open: "[0, 1][", Close: "]", Atom: "1"}, {Open: "[0: 0][", Close: "]", Atom: "0"}, {Open: "get([0], ", Close: ", 0)", Atom: "0"},
	{Open: "get([0: 0], ", Close: ", 0)", Atom: "0"}, {Open: "(isset([0: 0], ", Close: ") ? 0 : 1)", Atom: "0"}, {Open: "[\"a\": \"a\"][", Close: "]", Atom: "\"a\""},
	// method-call notation and dynamic calls
	{Close: ".abs()", Atom: "(1)"}, {Close: ".hsub(1)", Atom: "(1)"}, {Close: ".tr(1)", Atom: "(1)"}, {Open: "(1).hsub(", Close: ")", Atom: "1"}, {Close: ".string()", Atom: "(1)"},
}

func TestC12(t *testing.T) {
	R.Rule = "source strings up to 256 bytes (quick) / 4 KiB (thorough): random bytes, random runes, token soup from the lexicon, grammar-aware edits (insert / delete / duplicate / swap) of valid programs taken from a seed list and from the program generator, bracket nests to depth 12, valid programs; environments: none, Go host values built by reflection (structs, maps, slices, pointers, interface parts, nil parts, unsupported kinds), or one of the fixed hostile host values (cyclic maps / slices / struct rings, self-referential pointers, recursive Go types with nil links, nesting beyond conv's limit, typed nils, unsupported kinds), also as run-time environment of a Callable compiled against something else; accepted generated programs over a host struct of interface{} fields or untagged pointer fields, the Callable then invoked with other values of the very same Go type (zero value, fields holding one another's values, strings / lists / numbers / maps); accepted sources are also passed to Debug and Eval with blanks / line breaks before and after them; every call of Eval, Compile (two back ends), the Callable (same environment, a mismatching map, nil, a number, an unsupported struct, raw *val.Env values - empty, a chain of scopes, a typed nil - and *types.Env values, values of the very same Go struct type that have another yae type: the zero value, interface{} fields holding a string / list / number / map) and Debug must return without panicking, with a value or an error, within 5 s (a slower call is repeated three times and reported only if slow every time; a call that does not return within 180 s aborts the run as a violation); boundary class: every numeric built-in over all pairs of 25 boundary numbers written as literals (0, ±1, ±0.5, 2^53, ±2^62, ±2^63 and neighbours, 2^64, 1e19, ±1e308, denormals, NaN, ±Inf), evaluated through Eval and the closure back end under a 20 s limit per call; scaling class: compile time against repetition count 2..60 for 45 nest, chain and prefix shapes must not grow by more than 2.5x per two levels over four consecutive steps from depth 12 on (or 1.7x over five steps from depth 30 on); eval-scaling class: 69 closed accepted shapes (nested / chained conditionals, short-circuit operators, user lazy functions, defaults, strict and host calls, literals, selectors, nests in the index / key operand of selectors, method notation) compiled and evaluated on each of the four back ends at repetition counts 2..60, compile time (whole pipeline) and evaluation time under the same growth rule; capacity class: sources of 60-100 KB at the VM's encoding limits (conditionals whose code crosses the 16-bit jump range; thorough: further wide / deep shapes) compiled and invoked twice through the public API on both facade back ends; non-trivial = input accepted, or rejected with more than one token"
	R.Assume = []string{"termination is only observed under the stated budgets; Go stack exhaustion by inputs beyond 4 KiB is not probed"}
	reportKnown(t, "C12")
	runRegress(t, "C12")
	c12scale.Each(t, "nest-shapes", func(yield func(*ScaleCase) bool) {
		for _, c := range scaleCases {
			if !yield(c) {
				return
			}
		}
	})
	c12capacity.Each(t, "capacity-sources", func(yield func(*CapacityCase) bool) {
		for _, c := range capacityCases() {
			if !yield(c) {
				return
			}
		}
	})
	c12evalscale.Each(t, "eval-scaling-shapes", func(yield func(*EvalScaleCase) bool) {
		for _, c := range evalScaleCases {
			if !yield(c) {
				return
			}
		}
	})
	c12.Each(t, "fixed-host-values", func(yield func(*APICase) bool) {
		for _, n := range fixedHostNames() {
			for _, src := range []string{"1", "a", "V + 1", "(", ""} {
				if !yield(&APICase{Kind: "fixed-host", Src: src, Fixed: n}) {
					return
				}
			}
		}
	})
	c12boundary.Each(t, "boundary-operands", func(yield func(*BoundaryCase) bool) {
		for _, op := range boundaryOps {
			for a := range boundaryNums {
				for b := range boundaryNums {
					if !yield(&BoundaryCase{Op: op, A: a, B: b}) {
						return
					}
				}
			}
		}
	})
	c12.Run(t, budget(12000, 800000))
	c12host.Run(t, budget(2000, 100000))
}
