package props

import (
	"fmt"
	"strings"
	"testing"
	"unicode"

	"github.com/goghcrow/yae/parser/lexer"
	"github.com/goghcrow/yae/parser/oper"
	"github.com/goghcrow/yae/parser/token"
	"pgregory.net/rapid"

	"verif/ref"
	"verif/run"
)

// C09 — tokens partition the input with exact positions and longest-match operators.

type LexCase struct {
	Input string   `json:"input"`
	Ops   []string `json:"ops,omitempty"` // registered operator spellings; nil = the built-in table
	// operator sets with which the same input was lexed earlier in this process (result not looked at)
	Prev [][]string `json:"prev,omitempty"`
	// other inputs lexed earlier by the very same lexer object (accepted or refused, result not looked at)
	Before []string `json:"before,omitempty"`
}

var builtinOpNames = func() []string {
	seen := map[string]bool{}
	var out []string
	for _, o := range oper.BuiltIn() {
		if !seen[string(o.Kind)] {
			seen[string(o.Kind)] = true
			out = append(out, string(o.Kind))
		}
	}
	return out
}()

func opsFor(names []string) []oper.Operator {
	if names == nil {
		return append([]oper.Operator(nil), oper.BuiltIn()...)
	}
	out := make([]oper.Operator, len(names))
	for i, n := range names {
		out[i] = oper.Operator{Kind: token.Kind(n), BP: oper.BP(5 + i%7), Fixity: oper.INFIX_L}
	}
	return out
}

type yaeTok struct {
	Kind, Lexeme           string
	Idx, IdxEnd, Line, Col int
}

func yaeLex(input string, names []string, before ...string) (toks []yaeTok, p *run.Panic) {
	lx := lexer.NewLexer(opsFor(names))
	for _, b := range before {
		_ = run.Guard(func() { lx.Lex(b) })
	}
	p = run.Guard(func() {
		for _, t := range lx.Lex(input) {
			toks = append(toks, yaeTok{string(t.Kind), t.Lexeme, t.Idx, t.IdxEnd, t.Line, t.Col})
		}
	})
	return
}

func checkLex(c *LexCase) *Outcome {
	names := c.Ops
	if names == nil {
		names = builtinOpNames
	}
	want, werr := ref.Lex(c.Input, names)
	for _, prev := range c.Prev {
		_, _ = yaeLex(c.Input, prev)
	}
	got, p := yaeLex(c.Input, c.Ops, c.Before...)
	runes := []rune(c.Input)
	desc := fmt.Sprintf("input %q ops %v", c.Input, c.Ops)
	if len(c.Before) > 0 {
		desc += fmt.Sprintf(" the same lexer object lexed %q before", c.Before)
	}
	if p != nil {
		if p.Runtime {
			return bad("lexer failed with a runtime error instead of a syntax error: %s (%s)", p.Text, desc)
		}
		if !strings.Contains(p.Text, "syntax error") {
			return bad("lexer failure is not a syntax error: %s (%s)", p.Text, desc)
		}
	}
	// ---- partition invariants (no reference needed)
	if p == nil {
		pos, line, col := 0, 0, 0
		for i, t := range got {
			if t.Idx < pos || t.IdxEnd <= t.Idx || t.IdxEnd > len(runes) {
				return bad("token %d %q has range [%d,%d) after position %d (%s)", i, t.Lexeme, t.Idx, t.IdxEnd, pos, desc)
			}
			for ; pos < t.Idx; pos++ {
				if !unicode.IsSpace(runes[pos]) {
					return bad("non-white-space %q skipped between tokens at %d (%s)", string(runes[pos]), pos, desc)
				}
				if runes[pos] == '\n' {
					line++
					col = 0
				} else {
					col++
				}
			}
			if string(runes[t.Idx:t.IdxEnd]) != t.Lexeme {
				return bad("token %d: recorded range [%d,%d) spells %q, lexeme is %q (%s)", i, t.Idx, t.IdxEnd, string(runes[t.Idx:t.IdxEnd]), t.Lexeme, desc)
			}
			if t.Line != line || t.Col != col {
				return bad("token %d %q: recorded line %d col %d, true line %d col %d (%s)", i, t.Lexeme, t.Line, t.Col, line, col, desc)
			}
			for ; pos < t.IdxEnd; pos++ {
				if runes[pos] == '\n' {
					line++
					col = 0
				} else {
					col++
				}
			}
		}
		for ; pos < len(runes); pos++ {
			if !unicode.IsSpace(runes[pos]) {
				return bad("input after the last token is not white space: %q (%s)", string(runes[pos:]), desc)
			}
		}
	}
	// ---- agreement with the reference scanner
	if (werr != nil) != (p != nil) {
		if werr != nil {
			return bad("lexer accepts input the lexicon rejects (%v); tokens %v (%s)", werr, fmtToks(got), desc)
		}
		return bad("lexer rejects input the lexicon accepts as %v: %s (%s)", fmtRefToks(want), p.Text, desc)
	}
	if werr == nil {
		if len(want) != len(got) {
			return bad("tokens %v, lexicon gives %v (%s)", fmtToks(got), fmtRefToks(want), desc)
		}
		for i := range want {
			w, g := want[i], got[i]
			if w.Kind != g.Kind || w.Lexeme != g.Lexeme || w.Idx != g.Idx || w.IdxEnd != g.IdxEnd || w.Line != g.Line || w.Col != g.Col {
				return bad("token %d is %s %q [%d,%d) %d:%d, lexicon gives %s %q [%d,%d) %d:%d (%s)", i, g.Kind, g.Lexeme, g.Idx, g.IdxEnd, g.Line, g.Col,
					w.Kind, w.Lexeme, w.Idx, w.IdxEnd, w.Line, w.Col, desc)
			}
		}
	}
	// ---- classes
	classes := []string{}
	if len(c.Prev) > 0 {
		classes = append(classes, "after-sibling-operator-set")
	}
	if len(c.Before) > 0 {
		classes = append(classes, "lexer-object-reused")
	}
	multi, nl := false, strings.Contains(c.Input, "\n")
	kinds := map[string]bool{}
	for _, t := range want {
		if t.IdxEnd-t.Idx > 1 {
			multi = true
		}
		kinds[t.Kind] = true
	}
	for k := range kinds {
		switch k {
		case "<num>", "<str>", "<time>", "<sym>", "true", "false", ".", "?":
			classes = append(classes, "tok:"+k)
		}
	}
	if werr != nil {
		classes = append(classes, "rejected")
	} else {
		classes = append(classes, "accepted")
	}
	if nl {
		classes = append(classes, "multi-line")
	}
	if c.Ops != nil {
		classes = append(classes, "custom-operator-set")
	}
	nontrivial := (len(want) >= 2 && (multi || nl)) || (werr != nil && len(want) >= 1)
	return ok(nontrivial, classes...)
}

func fmtToks(ts []yaeTok) string {
	xs := make([]string, len(ts))
	for i, t := range ts {
		xs[i] = fmt.Sprintf("%s%q", kindTag(t.Kind), t.Lexeme)
	}
	return "[" + strings.Join(xs, " ") + "]"
}
func fmtRefToks(ts []ref.Tok) string {
	xs := make([]string, len(ts))
	for i, t := range ts {
		xs[i] = fmt.Sprintf("%s%q", kindTag(t.Kind), t.Lexeme)
	}
	return "[" + strings.Join(xs, " ") + "]"
}
func kindTag(k string) string {
	if strings.HasPrefix(k, "<") {
		return k
	}
	return ""
}

var opPool = []string{"<", "<=", "<=>", "=>", "=", "==", "!", "!=", "&&", "&", "|", "||", "~", "@", "#", "$", "%", "^", "+", "++", "-", "->", "*", "**", "/", "//",
	".^.", "?.", "..", "?-", "<.", "ˆ.ˆ", "<ˆ>", "ˆ", "+ˆ", "ˆ=", ".ˆ", "and", "or", "not", "div", "mod", "在", "_op", "x2", "truely", "e"}

func genOps(t *rapid.T) []string {
	switch rapid.IntRange(0, 3).Draw(t, "opset") {
	case 0, 1:
		return nil
	}
	n := rapid.IntRange(1, 8).Draw(t, "nops")
	pool := append([]string(nil), opPool...)
	var out []string
	for i := 0; i < n; i++ {
		j := rapid.IntRange(0, len(pool)-1).Draw(t, "op")
		out = append(out, pool[j])
		pool = append(pool[:j], pool[j+1:]...)
	}
	return out
}

var lexSnippets = []string{"true", "false", "truex", "falsey", "xtrue", "and", "android", "or", "not", "nota", "a", "b1", "_x", "名", "é1", "0", "1", "12", "012", "1.5", "1.5.6", "1.", ".5", "1e5", "1e+5", "1e", "1.5e-3", "1e5e6",
	"0x1F", "0x", "0xg", "0b101", "0b12", "0o17", "0o8", "0b0", "0x0f", `"s"`, `"a\"b"`, `"a\\"`, `"é"`, `"\u12"`, `"\q"`, `"unterminated`, "`raw`", "`un", "'2020-01-01'", "'t", "'a\"b'",
	".", "?", ":", ",", "(", ")", "[", "]", "{", "}", "<", "<=", "==", "!=", "!", "&&", "||", "+", "-", "*", "/", "%", "^", ">=", ">", "=", "&", "|", "~", "@", "#", "$", "\\", "ˆ", ".^.", "?.", "..", "<=>", "=>", "ˆ.ˆ", "<ˆ>",
	" ", "  ", "\t", "\n", "\r\n", " ", "　", "\v", ";", "\"", "'", "`", "💥",
	// control characters that are NOT white space, and white space beyond ASCII
	"\x00", "\x01", "\x08", "\x0e", "\x1b", "\x1f", "\x7f", "\f", "\u0085", "\u2028", "\u200b", "\ufeff"}

// siblingOps: the same characters split into other spellings, one spelling more or fewer,
// another order.
func siblingOps(t *rapid.T, names []string) []string {
	out := append([]string(nil), names...)
	if len(out) == 0 {
		return out
	}
	i := rapid.IntRange(0, len(out)-1).Draw(t, "i")
	switch rapid.IntRange(0, 4).Draw(t, "sibling") {
	case 0: // split one spelling into two
		r := []rune(out[i])
		if len(r) >= 2 {
			k := rapid.IntRange(1, len(r)-1).Draw(t, "cut")
			out[i] = string(r[:k])
			out = append(out, string(r[k:]))
		}
	case 1: // glue two spellings
		j := rapid.IntRange(0, len(out)-1).Draw(t, "j")
		if i != j {
			out[i] = out[i] + out[j]
			out = append(out[:j], out[j+1:]...)
		}
	case 2:
		out = append(out[:i], out[i+1:]...)
	case 3:
		for a, b := 0, len(out)-1; a < b; a, b = a+1, b-1 {
			out[a], out[b] = out[b], out[a]
		}
	default:
		out = append(out, out[i]+out[i])
	}
	seen := map[string]bool{}
	var ded []string
	for _, n := range out {
		if n != "" && !seen[n] {
			seen[n] = true
			ded = append(ded, n)
		}
	}
	return ded
}

func genLexCase(t *rapid.T) *LexCase {
	c := genLexCase0(t)
	if rapid.IntRange(0, 2).Draw(t, "withprev") == 0 {
		names := c.Ops
		if names == nil {
			names = builtinOpNames
		}
		if sib := siblingOps(t, names); len(sib) > 0 {
			c.Prev = append(c.Prev, sib)
		}
	}
	if nb := rapid.IntRange(0, 5).Draw(t, "before"); nb >= 4 {
		for i := 0; i < nb-3; i++ {
			b := genLexCase0(t).Input
			switch rapid.IntRange(0, 3).Draw(t, "beforekind") {
			case 0:
				b += " $" // refused after some accepted tokens, possibly on a later line
			case 1:
				b += "\n\n \"unterminated"
			}
			c.Before = append(c.Before, b)
		}
	}
	return c
}

func genLexCase0(t *rapid.T) *LexCase {
	c := &LexCase{Ops: genOps(t)}
	switch rapid.IntRange(0, 2).Draw(t, "inputkind") {
	case 0:
		n := rapid.IntRange(0, 30).Draw(t, "n")
		var b strings.Builder
		for i := 0; i < n; i++ {
			b.WriteString(lexSnippets[rapid.IntRange(0, len(lexSnippets)-1).Draw(t, "snip")])
			if rapid.IntRange(0, 2).Draw(t, "sp") == 0 {
				b.WriteString(" ")
			}
		}
		c.Input = b.String()
	case 1:
		// operator-heavy: spellings of the registered set glued together
		names := c.Ops
		if names == nil {
			names = builtinOpNames
		}
		n := rapid.IntRange(1, 12).Draw(t, "n")
		var b strings.Builder
		for i := 0; i < n; i++ {
			switch rapid.IntRange(0, 3).Draw(t, "what") {
			case 0:
				b.WriteString(lexSnippets[rapid.IntRange(0, len(lexSnippets)-1).Draw(t, "snip")])
			default:
				b.WriteString(names[rapid.IntRange(0, len(names)-1).Draw(t, "opname")])
			}
			if rapid.IntRange(0, 3).Draw(t, "sp") == 0 {
				b.WriteString(" ")
			}
		}
		c.Input = b.String()
	default:
		c.Input = rapid.StringOfN(rapid.RuneFrom([]rune("ab1 0.e?x<=->!&|\"'`\\\n\tué名(){}[],:+*/%^~@#$_5 \x00\x1f\x7f\f\u0085\u200b")), 0, 60, -1).Draw(t, "raw")
	}
	return c
}

var c09 = Register(&Prop[LexCase]{ID: "C09", Name: "lexer-vs-lexicon", Gen: genLexCase, Check: checkLex})

var lexAlphabet = []string{"a", "1", "0", ".", "?", "<", "=", "-", "\"", "'", "`", " ", "\n", "e", "x", "("}

func eachLexString(maxLen int, ops []string) func(yield func(*LexCase) bool) {
	return eachLexStringOver(lexAlphabet, maxLen, ops)
}

// operators spelled with the one non-ASCII operator character (2 bytes, 1 rune)
var lexAlphabetWide = []string{"ˆ", ".", "<", ">", "a", "1", " ", "\n", "é"}

func eachLexStringOver(lexAlphabet []string, maxLen int, ops []string) func(yield func(*LexCase) bool) {
	return func(yield func(*LexCase) bool) {
		idx := make([]int, maxLen)
		for n := 0; n <= maxLen; n++ {
			for i := range idx {
				idx[i] = 0
			}
			for {
				var b strings.Builder
				for i := 0; i < n; i++ {
					b.WriteString(lexAlphabet[idx[i]])
				}
				if !yield(&LexCase{Input: b.String(), Ops: ops}) {
					return
				}
				k := n - 1
				for k >= 0 {
					idx[k]++
					if idx[k] < len(lexAlphabet) {
						break
					}
					idx[k] = 0
					k--
				}
				if k < 0 {
					break
				}
			}
		}
	}
}

func TestC09(t *testing.T) {
	R.Rule = "input strings over a mixed alphabet (operator characters, ASCII and non-ASCII letters, digits, punctuation, the three quote characters, backslash, blank, tab, line breaks, U+00A0, U+3000): exhaustively up to length 4 (quick) / 5 (thorough) over a 16-symbol alphabet for the built-in and one overlapping custom operator set, to length 5 / 6 over a 9-symbol alphabet around the non-ASCII operator character U+02C6 with operators spelled with it, and randomly (snippet soup, operator glue, raw runes) to length ~60 under drawn operator sets with prefix-overlapping symbols, identifier-like operators and operators containing . or ?; one random case in three first lexes the same input with a sibling operator set (one spelling split in two, two glued, one dropped, doubled, another order) in the same process; oracle: a hand-written reference scanner of the documented lexicon (identical token list with kinds, lexemes, ranges, lines, columns, or both reject) plus reference-free partition invariants; non-trivial = >= 2 tokens with a multi-rune token or a line break, or rejected after >= 1 token"
	R.Assume = []string{"ref.Lex is the reading of the documented lexicon; operator sets avoid ':' (also punctuation) and the words true/false"}
	reportKnown(t, "C09")
	runRegress(t, "C09")
	maxLen := 4
	if Tier == "thorough" {
		maxLen = 5
	}
	c09.Each(t, fmt.Sprintf("len<=%d builtin", maxLen), eachLexString(maxLen, nil))
	c09.Each(t, fmt.Sprintf("len<=%d custom", maxLen-1), eachLexString(maxLen-1, []string{"<", "<=", "<=>", "=>", "-", "->", ".<.", "?=", "e", "x1"}))
	c09.Each(t, fmt.Sprintf("len<=%d wide-operator-characters", maxLen+1), eachLexStringOver(lexAlphabetWide, maxLen+1, []string{"ˆ.ˆ", "<ˆ>", "ˆ", "<", ".ˆ", "é"}))
	c09.Run(t, budget(20000, 1600000))
}
