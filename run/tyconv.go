// Package run bridges the harness model and the yae packages, and runs the
// pipeline / back ends with panic capture.
package run

import (
	"fmt"

	"github.com/goghcrow/yae/types"
	"github.com/goghcrow/yae/val"

	"verif/model"
)

// TyCtx converts model types to yae types. Type variables are created through
// the documented constructor types.TyVar (which makes names unique); the
// context remembers which yae name stands for which model name.
type TyCtx struct {
	vars   map[string]*types.Type
	back   map[string]string
	Share  bool // identical (same written order) sub-terms become one *types.Type
	shared map[string]*types.Type
	share  map[string]*val.Val // value hash-consing (ToYaeValShared)
	// Arena (when non-nil): the parameter lists of function types and the element lists of
	// tuples are carved one after another out of this one backing array (cap > len for every
	// carved slice: its spare capacity is the next list), the way an arena allocator hands them out
	Arena *[]*types.Type
}

// NewArena: a backing array for Arena.
func NewArena() *[]*types.Type {
	a := make([]*types.Type, 0, 4096)
	return &a
}

func (c *TyCtx) take(n int) []*types.Type {
	if c.Arena == nil || len(*c.Arena)+n > cap(*c.Arena) {
		return make([]*types.Type, n)
	}
	at := len(*c.Arena)
	*c.Arena = (*c.Arena)[:at+n]
	return (*c.Arena)[at : at+n] // capacity reaches to the end of the arena
}

func NewTyCtx() *TyCtx {
	return &TyCtx{vars: map[string]*types.Type{}, back: map[string]string{}, shared: map[string]*types.Type{}}
}

// Fork returns a context that shares the type variables but has its own
// cache of shared sub-terms (so that sharing happens inside one type, not
// across two).
func (c *TyCtx) Fork() *TyCtx {
	return &TyCtx{vars: c.vars, back: c.back, Share: c.Share, shared: map[string]*types.Type{}, Arena: c.Arena}
}

// VarName maps a yae type-variable name back to the model name.
func (c *TyCtx) VarName(yaeName string) (string, bool) {
	n, ok := c.back[yaeName]
	return n, ok
}

func (c *TyCtx) To(t *model.Type) *types.Type {
	if c.Share && t.K != model.TVar {
		key := t.OrderString()
		if y, ok := c.shared[key]; ok {
			return y
		}
		y := c.to(t)
		c.shared[key] = y
		return y
	}
	return c.to(t)
}

func (c *TyCtx) to(t *model.Type) *types.Type {
	switch t.K {
	case model.TNum:
		return types.Num
	case model.TStr:
		return types.Str
	case model.TBool:
		return types.Bool
	case model.TTime:
		return types.Time
	case model.TBot:
		return types.Bottom
	case model.TTop:
		return types.Top
	case model.TVar:
		if y, ok := c.vars[t.N]; ok {
			return y
		}
		y := types.TyVar(t.N)
		c.vars[t.N] = y
		c.back[y.TyVar().Name] = t.N
		return y
	case model.TList:
		return types.List(c.To(t.A[0]))
	case model.TMaybe:
		return types.Maybe(c.To(t.A[0]))
	case model.TMap:
		return types.Map(c.To(t.A[0]), c.To(t.A[1]))
	case model.TTuple:
		xs := c.take(len(t.A))
		for i, a := range t.A {
			xs[i] = c.To(a)
		}
		return types.Tuple(xs)
	case model.TFun:
		ps := c.take(len(t.A) - 1)
		for i, a := range t.Params() {
			ps[i] = c.To(a)
		}
		return types.Fun(t.N, ps, c.To(t.Ret()))
	case model.TObj:
		fs := make([]types.Field, len(t.F))
		for i, f := range t.F {
			fs[i] = types.Field{Name: f.Name, Val: c.To(f.T)}
		}
		return types.Obj(fs)
	}
	panic(fmt.Sprintf("tyconv: unknown kind %q", t.K))
}

// From reads a yae type back. Kinds are trusted (types are built only through
// yae's constructors); nil components are reported as kind "nil!".
func (c *TyCtx) From(y *types.Type) *model.Type {
	return c.from(y, 0)
}

func FromYaeType(y *types.Type) *model.Type { return NewTyCtx().From(y) }

func (c *TyCtx) from(y *types.Type, d int) *model.Type {
	if y == nil {
		return &model.Type{K: "nil!"}
	}
	if d > 200 {
		return &model.Type{K: "deep!"}
	}
	switch y.Kind {
	case types.KNum:
		return model.Num
	case types.KStr:
		return model.Str
	case types.KBool:
		return model.Bool
	case types.KTime:
		return model.Time
	case types.KBot:
		return model.Bot
	case types.KTop:
		return model.Top
	case types.KTyVar:
		n := y.TyVar().Name
		if c != nil {
			if m, ok := c.back[n]; ok {
				return model.Var(m)
			}
		}
		return model.Var("?" + n)
	case types.KList:
		return model.List(c.from(y.List().El, d+1))
	case types.KMaybe:
		return model.Maybe(c.from(y.Maybe().Elem, d+1))
	case types.KMap:
		return model.Map(c.from(y.Map().Key, d+1), c.from(y.Map().Val, d+1))
	case types.KObj:
		o := y.Obj()
		fs := make([]model.Field, len(o.Fields))
		for i, f := range o.Fields {
			fs[i] = model.Field{Name: f.Name, T: c.from(f.Val, d+1)}
		}
		return model.Obj(fs...)
	case types.KFun:
		f := y.Fun()
		ps := make([]*model.Type, len(f.Param))
		for i, p := range f.Param {
			ps[i] = c.from(p, d+1)
		}
		return model.Fun(f.Name, ps, c.from(f.Return, d+1))
	default:
		// tuple kind is unexported; it is the only remaining composite
		if y.IsComposite() {
			tv := y.Tuple().Val
			xs := make([]*model.Type, len(tv))
			for i, a := range tv {
				xs[i] = c.from(a, d+1)
			}
			return model.Tuple(xs...)
		}
		return &model.Type{K: model.TKind(fmt.Sprintf("kind%d!", int(y.Kind)))}
	}
}

// Guard runs f and converts a panic into an error; runtime errors are marked.
type Panic struct {
	Val     interface{}
	Runtime bool
	Text    string
}

func (p *Panic) Error() string { return p.Text }
