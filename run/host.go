package run

import (
	"fmt"
	"reflect"
	"time"

	m "verif/model"
)

// Host data: Go values built by reflection that conv should map to a given
// model type / value.
//
//	num   float64 (or the numeric Go kind named in HostOpt.NumKind)
//	str   string      bool  bool      time  time.Time
//	list  []T         map   map[K]V
//	obj   struct{ F0 T0 `yae:"name0"`; ... }   (reflect.StructOf)
//	maybe *T with tag `yae:"name,maybe"` — only as an object field
//
// Hostable reports whether a type can be expressed that way.
func Hostable(t *m.Type) bool { return hostable(t, false) }

// HostableEnv: every binding hostable; optionals allowed at top level (an
// environment is itself a struct).
func HostableEnv(env map[string]*m.Type) bool {
	for _, t := range env {
		if !hostable(t, true) {
			return false
		}
	}
	return true
}

func hostable(t *m.Type, field bool) bool {
	switch t.K {
	case m.TNum, m.TStr, m.TBool, m.TTime:
		return true
	case m.TList:
		return hostable(t.El(), false)
	case m.TMap:
		return t.Key().IsPrim() && hostable(t.Val(), false)
	case m.TObj:
		for _, f := range t.F {
			if !hostable(f.T, true) || !goFieldNameOK(f.Name) {
				return false
			}
		}
		return true
	case m.TMaybe:
		// a pointer; pointer to pointer is flattened by conv, and an optional of
		// an optional cannot be told apart
		return field && t.El().K != m.TMaybe && hostable(t.El(), false)
	}
	return false
}

func goFieldNameOK(n string) bool { return n != "" }

var timeType = reflect.TypeOf(time.Time{})

// GoType builds the Go type for a model type. Struct fields are named F<i>
// and carry the yae tag with the model field name.
func GoType(t *m.Type) reflect.Type {
	switch t.K {
	case m.TNum:
		return reflect.TypeOf(float64(0))
	case m.TStr:
		return reflect.TypeOf("")
	case m.TBool:
		return reflect.TypeOf(false)
	case m.TTime:
		return timeType
	case m.TList:
		return reflect.SliceOf(GoType(t.El()))
	case m.TMap:
		return reflect.MapOf(GoType(t.Key()), GoType(t.Val()))
	case m.TMaybe:
		return reflect.PointerTo(GoType(t.El()))
	case m.TObj:
		fs := make([]reflect.StructField, len(t.F))
		for i, f := range t.F {
			tag := fmt.Sprintf(`yae:"%s"`, f.Name)
			if f.T.K == m.TMaybe {
				tag = fmt.Sprintf(`yae:"%s,maybe"`, f.Name)
			}
			fs[i] = reflect.StructField{Name: fmt.Sprintf("F%d", i), Type: GoType(f.T), Tag: reflect.StructTag(tag)}
		}
		return reflect.StructOf(fs)
	}
	panic("GoType: " + string(t.K))
}

// GoValue builds the Go value for a model value (of GoType(v.T)).
func GoValue(v *m.Val) reflect.Value {
	rt := GoType(v.T)
	switch v.T.K {
	case m.TNum:
		return reflect.ValueOf(float64(v.N))
	case m.TStr:
		return reflect.ValueOf(v.S)
	case m.TBool:
		return reflect.ValueOf(v.B)
	case m.TTime:
		return reflect.ValueOf(v.Tm.Go())
	case m.TList:
		s := reflect.MakeSlice(rt, len(v.L), len(v.L))
		for i, e := range v.L {
			s.Index(i).Set(coerce(GoValue(e), rt.Elem()))
		}
		return s
	case m.TMap:
		mp := reflect.MakeMapWithSize(rt, len(v.M))
		for _, e := range v.M {
			mp.SetMapIndex(coerce(GoValue(e.K), rt.Key()), coerce(GoValue(e.V), rt.Elem()))
		}
		return mp
	case m.TMaybe:
		if v.P == nil {
			return reflect.Zero(rt)
		}
		p := reflect.New(rt.Elem())
		p.Elem().Set(coerce(GoValue(v.P), rt.Elem()))
		return p
	case m.TObj:
		s := reflect.New(rt).Elem()
		for i, e := range v.L {
			s.Field(i).Set(coerce(GoValue(e), rt.Field(i).Type))
		}
		return s
	}
	panic("GoValue: " + string(v.T.K))
}

// coerce: element values may have been built from a value whose own type has
// another field order than the container's declared element type; rebuild by name.
func coerce(x reflect.Value, want reflect.Type) reflect.Value {
	if x.Type() == want {
		return x
	}
	if x.Type().ConvertibleTo(want) && x.Kind() != reflect.Struct {
		return x.Convert(want)
	}
	switch want.Kind() {
	case reflect.Struct:
		out := reflect.New(want).Elem()
		for i := 0; i < want.NumField(); i++ {
			name := want.Field(i).Tag.Get("yae")
			for j := 0; j < x.NumField(); j++ {
				if x.Type().Field(j).Tag.Get("yae") == name {
					out.Field(i).Set(coerce(x.Field(j), want.Field(i).Type))
				}
			}
		}
		return out
	case reflect.Slice:
		out := reflect.MakeSlice(want, x.Len(), x.Len())
		for i := 0; i < x.Len(); i++ {
			out.Index(i).Set(coerce(x.Index(i), want.Elem()))
		}
		return out
	case reflect.Map:
		out := reflect.MakeMapWithSize(want, x.Len())
		it := x.MapRange()
		for it.Next() {
			out.SetMapIndex(coerce(it.Key(), want.Key()), coerce(it.Value(), want.Elem()))
		}
		return out
	case reflect.Pointer:
		if x.IsNil() {
			return reflect.Zero(want)
		}
		p := reflect.New(want.Elem())
		p.Elem().Set(coerce(x.Elem(), want.Elem()))
		return p
	}
	panic(fmt.Sprintf("coerce %s to %s", x.Type(), want))
}

// EnvStruct: the environment as one Go struct value (fields = bindings,
// sorted by name), to be passed to Compile / the Callable / Eval.
func EnvStruct(vals map[string]*m.Val) interface{} {
	names := sortedValKeys(vals)
	fs := make([]m.Field, len(names))
	vs := make([]*m.Val, len(names))
	for i, n := range names {
		fs[i] = m.Field{Name: n, T: vals[n].T}
		vs[i] = vals[n]
	}
	return GoValue(&m.Val{T: m.Obj(fs...), L: vs}).Interface()
}

// EnvMap: the environment as map[string]interface{}. Optionals cannot appear
// at the top level of a map (a nil interface value is an error), so absent
// optionals make the form unavailable: ok=false.
func EnvMap(vals map[string]*m.Val) (map[string]interface{}, bool) {
	out := map[string]interface{}{}
	for n, v := range vals {
		if v.T.K == m.TMaybe {
			return nil, false
		}
		out[n] = GoValue(v).Interface()
	}
	return out, true
}

// EnvStructNil is EnvStruct, except that an absent optional list / map
// binding is represented by an untagged nil slice / nil map field (instead of
// a nil pointer tagged maybe) — the other way host data says "absent".
func EnvStructNil(vals map[string]*m.Val) interface{} {
	names := sortedValKeys(vals)
	fs := make([]reflect.StructField, len(names))
	vs := make([]reflect.Value, len(names))
	for i, n := range names {
		v := vals[n]
		if v.T.K == m.TMaybe && v.P == nil && (v.T.El().K == m.TList || v.T.El().K == m.TMap) {
			gt := GoType(v.T.El())
			fs[i] = reflect.StructField{Name: fmt.Sprintf("F%d", i), Type: gt, Tag: reflect.StructTag(fmt.Sprintf(`yae:"%s"`, n))}
			vs[i] = reflect.Zero(gt)
			continue
		}
		tag := fmt.Sprintf(`yae:"%s"`, n)
		if v.T.K == m.TMaybe {
			tag = fmt.Sprintf(`yae:"%s,maybe"`, n)
		}
		fs[i] = reflect.StructField{Name: fmt.Sprintf("F%d", i), Type: GoType(v.T), Tag: reflect.StructTag(tag)}
		vs[i] = GoValue(v)
	}
	s := reflect.New(reflect.StructOf(fs)).Elem()
	for i := range vs {
		s.Field(i).Set(vs[i])
	}
	return s.Interface()
}

var anyType = reflect.TypeOf((*interface{})(nil)).Elem()

// EnvStructDyn: the environment as a Go struct whose fields all have the Go
// type interface{} (tag = binding name). The Go type then depends on the names
// only, while the yae type of each binding is that of the value it currently
// holds — two environments of one Go type can differ in yae type. Optionals
// cannot be expressed at top level (a nil interface is an error): ok=false.
func EnvStructDyn(vals map[string]*m.Val) (interface{}, bool) {
	names := sortedValKeys(vals)
	fs := make([]reflect.StructField, len(names))
	for i, n := range names {
		if vals[n].T.K == m.TMaybe {
			return nil, false
		}
		fs[i] = reflect.StructField{Name: fmt.Sprintf("F%d", i), Type: anyType, Tag: reflect.StructTag(fmt.Sprintf(`yae:"%s"`, n))}
	}
	s := reflect.New(reflect.StructOf(fs)).Elem()
	for i, n := range names {
		s.Field(i).Set(GoValue(vals[n]))
	}
	return s.Interface(), true
}

// EnvStructPtr: the environment as a Go struct whose fields are untagged
// pointers: a binding of type T is a non-nil *T, an absent optional of T the
// nil *T (conv binds that as maybe[T]). A present optional cannot be expressed
// without the tag: ok=false. Again one Go type, several yae types.
func EnvStructPtr(vals map[string]*m.Val) (interface{}, bool) {
	names := sortedValKeys(vals)
	fs := make([]reflect.StructField, len(names))
	for i, n := range names {
		v := vals[n]
		t := v.T
		if t.K == m.TMaybe {
			if v.P != nil {
				return nil, false
			}
			t = t.El()
		}
		fs[i] = reflect.StructField{Name: fmt.Sprintf("F%d", i), Type: reflect.PointerTo(GoType(t)), Tag: reflect.StructTag(fmt.Sprintf(`yae:"%s"`, n))}
	}
	s := reflect.New(reflect.StructOf(fs)).Elem()
	for i, n := range names {
		v := vals[n]
		if v.T.K == m.TMaybe {
			continue // nil pointer
		}
		p := reflect.New(fs[i].Type.Elem())
		p.Elem().Set(GoValue(v))
		s.Field(i).Set(p)
	}
	return s.Interface(), true
}

// EnvStructPtrMixed: optional-typed bindings are pointer fields tagged maybe (nil or not),
// every other binding of type T is an UNTAGGED non-nil *T - except nilName, whose pointer is
// left nil (conv then binds it as an absent maybe[T]). The Go type is the same for every
// nilName ("" = none): one Go struct type, environments of different yae types.
func EnvStructPtrMixed(vals map[string]*m.Val, nilName string) interface{} {
	names := sortedValKeys(vals)
	fs := make([]reflect.StructField, len(names))
	for i, n := range names {
		v := vals[n]
		if v.T.K == m.TMaybe {
			fs[i] = reflect.StructField{Name: fmt.Sprintf("F%d", i), Type: GoType(v.T), Tag: reflect.StructTag(fmt.Sprintf(`yae:"%s,maybe"`, n))}
			continue
		}
		fs[i] = reflect.StructField{Name: fmt.Sprintf("F%d", i), Type: reflect.PointerTo(GoType(v.T)), Tag: reflect.StructTag(fmt.Sprintf(`yae:"%s"`, n))}
	}
	s := reflect.New(reflect.StructOf(fs)).Elem()
	for i, n := range names {
		v := vals[n]
		if v.T.K == m.TMaybe {
			s.Field(i).Set(GoValue(v))
			continue
		}
		if n == nilName {
			continue
		}
		p := reflect.New(fs[i].Type.Elem())
		p.Elem().Set(GoValue(v))
		s.Field(i).Set(p)
	}
	return s.Interface()
}

// EnvStructMaybeByValue is EnvStruct, except that a PRESENT optional binding (and a present
// optional field of a top-level object binding) is a field of the payload's own Go type tagged
// maybe, holding the payload itself - 0, "", false included - instead of a non-nil pointer.
// used reports whether any binding was represented that way.
func EnvStructMaybeByValue(vals map[string]*m.Val) (out interface{}, used bool) {
	names := sortedValKeys(vals)
	fs := make([]reflect.StructField, len(names))
	vs := make([]reflect.Value, len(names))
	var byValue func(v *m.Val) (reflect.Type, reflect.Value)
	byValue = func(v *m.Val) (reflect.Type, reflect.Value) {
		if v.T.K != m.TObj {
			return GoType(v.T), GoValue(v)
		}
		ffs := make([]reflect.StructField, len(v.T.F))
		fvs := make([]reflect.Value, len(v.T.F))
		for i, f := range v.T.F {
			fv := v.L[i]
			tag := fmt.Sprintf(`yae:"%s"`, f.Name)
			if f.T.K == m.TMaybe {
				tag = fmt.Sprintf(`yae:"%s,maybe"`, f.Name)
			}
			ft, gv := GoType(f.T), reflect.Value{}
			if f.T.K == m.TMaybe && fv.P != nil {
				ft, gv = byValue(fv.P)
				used = true
			} else {
				gv = GoValue(fv)
			}
			ffs[i] = reflect.StructField{Name: fmt.Sprintf("F%d", i), Type: ft, Tag: reflect.StructTag(tag)}
			fvs[i] = gv
		}
		st := reflect.New(reflect.StructOf(ffs)).Elem()
		for i := range fvs {
			st.Field(i).Set(coerce(fvs[i], ffs[i].Type))
		}
		return st.Type(), st
	}
	for i, n := range names {
		v := vals[n]
		tag := fmt.Sprintf(`yae:"%s"`, n)
		if v.T.K == m.TMaybe {
			tag = fmt.Sprintf(`yae:"%s,maybe"`, n)
		}
		var ft reflect.Type
		switch {
		case v.T.K == m.TMaybe && v.P != nil:
			ft, vs[i] = byValue(v.P)
			used = true
		case v.T.K == m.TObj:
			ft, vs[i] = byValue(v)
		default:
			ft, vs[i] = GoType(v.T), GoValue(v)
		}
		fs[i] = reflect.StructField{Name: fmt.Sprintf("F%d", i), Type: ft, Tag: reflect.StructTag(tag)}
	}
	st := reflect.New(reflect.StructOf(fs)).Elem()
	for i := range vs {
		st.Field(i).Set(coerce(vs[i], fs[i].Type))
	}
	return st.Interface(), used
}

// EnvMapMixedRows is EnvMap, except that every binding that is a slice of structs with two or
// more fields becomes a []interface{} whose element i is a struct of ANOTHER Go type: the same
// fields (same tags), declared in an order rotated by i. The yae types are the same as EnvMap's.
// mixed reports whether any binding was rebuilt.
func EnvMapMixedRows(vals map[string]*m.Val) (out map[string]interface{}, mixed bool, ok bool) {
	out, ok = EnvMap(vals)
	if !ok {
		return nil, false, false
	}
	for n, x := range out {
		rv := reflect.ValueOf(x)
		if rv.Kind() != reflect.Slice || rv.Type().Elem().Kind() != reflect.Struct || rv.Type().Elem() == timeType || rv.Type().Elem().NumField() < 2 || rv.Len() < 2 {
			continue
		}
		et := rv.Type().Elem()
		rows := make([]interface{}, rv.Len())
		for i := 0; i < rv.Len(); i++ {
			k := et.NumField()
			fs := make([]reflect.StructField, k)
			for j := 0; j < k; j++ {
				f := et.Field((j + i) % k)
				fs[j] = reflect.StructField{Name: fmt.Sprintf("G%d", j), Type: f.Type, Tag: f.Tag}
			}
			rows[i] = coerce(rv.Index(i), reflect.StructOf(fs)).Interface()
		}
		out[n] = rows
		mixed = true
	}
	return out, mixed, true
}
