package run

import (
	"fmt"

	"github.com/goghcrow/yae/types"
	"github.com/goghcrow/yae/val"
	"github.com/goghcrow/yae/vm"
)

// Bytecode verifier: decoder + abstract interpreter over the emitted
// program (DESIGN.md Appendix B). Written from the meaning of the
// instruction set; opcodes are identified by NAME (vm.VerifOpcodeNames), so a
// renumbering does not matter but an instruction the table does not know is
// an unknown instruction.

type opSpec struct {
	operands string // k: 16-bit const index, n: 16-bit count, a: 8-bit argc, t: 16-bit code offset
	pops     int    // fixed pops (-1: computed from operands)
	pushes   int
}

var opTable = map[string]opSpec{
	"OP_NOP":    {"", 0, 0},
	"OP_RETURN": {"", 1, 0},
	"OP_CONST":  {"k", 0, 1},
	"OP_LOAD":   {"k", 0, 1},

	"OP_ADD_NUM": {"", 1, 1}, "OP_SUB_NUM": {"", 1, 1}, "OP_ABS_NUM": {"", 1, 1}, "OP_CEIL_NUM": {"", 1, 1},
	"OP_FLOOR_NUM": {"", 1, 1}, "OP_ROUND_NUM": {"", 1, 1}, "OP_LOGICAL_NOT": {"", 1, 1},
	"OP_LEN_STR": {"", 1, 1}, "OP_LEN_LIST": {"", 1, 1}, "OP_LEN_MAP": {"", 1, 1}, "OP_STRTOTIME_STR": {"", 1, 1},

	"OP_ADD_NUM_NUM": {"", 2, 1}, "OP_ADD_STR_STR": {"", 2, 1}, "OP_SUB_NUM_NUM": {"", 2, 1}, "OP_SUB_TIME_TIME": {"", 2, 1},
	"OP_MUL_NUM_NUM": {"", 2, 1}, "OP_DIV_NUM_NUM": {"", 2, 1}, "OP_MOD_NUM_NUM": {"", 2, 1}, "OP_EXP_NUM_NUM": {"", 2, 1},
	"OP_MIN_NUM_NUM": {"", 2, 1}, "OP_MAX_NUM_NUM": {"", 2, 1},
	"OP_EQ_NUM_NUM": {"", 2, 1}, "OP_EQ_BOOL_BOOL": {"", 2, 1}, "OP_EQ_STR_STR": {"", 2, 1}, "OP_EQ_TIME_TIME": {"", 2, 1},
	"OP_EQ_LIST_LIST": {"", 2, 1}, "OP_EQ_MAP_MAP": {"", 2, 1},
	"OP_NE_NUM_NUM": {"", 2, 1}, "OP_NE_BOOL_BOOL": {"", 2, 1}, "OP_NE_STR_STR": {"", 2, 1}, "OP_NE_TIME_TIME": {"", 2, 1},
	"OP_NE_LIST_LIST": {"", 2, 1}, "OP_NE_MAP_MAP": {"", 2, 1},
	"OP_LT_NUM_NUM": {"", 2, 1}, "OP_LT_TIME_TIME": {"", 2, 1}, "OP_LE_NUM_NUM": {"", 2, 1}, "OP_LE_TIME_TIME": {"", 2, 1},
	"OP_GT_NUM_NUM": {"", 2, 1}, "OP_GT_TIME_TIME": {"", 2, 1}, "OP_GE_NUM_NUM": {"", 2, 1}, "OP_GE_TIME_TIME": {"", 2, 1},
	"OP_LIST_LOAD": {"", 2, 1}, "OP_MAP_LOAD": {"", 2, 1}, "OP_GET_MAYBE": {"", 2, 1},

	"OP_NEW_LIST": {"kn", -1, 1},
	"OP_NEW_MAP":  {"kn", -1, 1},
	"OP_NEW_OBJ":  {"k", -1, 1},
	"OP_OBJ_LOAD": {"k", 1, 1},

	"OP_CALL_BY_VALUE": {"ka", -1, 1},
	"OP_CALL_BY_NEED":  {"ka", -1, 1},
	"OP_DYNAMIC_CALL":  {"a", -1, 1},

	"OP_IF_TRUE": {"t", 1, 0},
	"OP_JUMP":    {"t", 0, 0},
}

type BCStats struct {
	Instructions int
	Jumps        int
	Thunks       int
	WideOperand  bool // an operand > 255
	MaxDepth     int
	Unreachable  int
	LongestPath  int
	Bodies       int
}

type instr struct {
	pc    int
	name  string
	k     int // const index
	n     int // count
	a     int // argc
	t     int // jump target
	width int
}

// VerifyProgram checks the program and, recursively, every thunk body.
func VerifyProgram(p vm.VerifProgram, st *BCStats) error {
	names := vm.VerifOpcodeNames()
	return verifyBody(p, names, st, 0)
}

func verifyBody(p vm.VerifProgram, names []string, st *BCStats, depth int) error {
	if depth > 1<<20 {
		return fmt.Errorf("thunk bodies nested deeper than 2^20")
	}
	st.Bodies++
	code, consts := p.Code, p.Consts
	if len(code) == 0 {
		return fmt.Errorf("empty code")
	}
	// ---- 1. linear decode
	var ins []instr
	boundary := map[int]int{} // pc -> index in ins
	for pc := 0; pc < len(code); {
		op := int(code[pc])
		if op >= len(names) {
			return fmt.Errorf("pc %d: unknown instruction byte %d", pc, op)
		}
		name := names[op]
		spec, ok := opTable[name]
		if !ok {
			return fmt.Errorf("pc %d: instruction %s is not in the instruction-set table", pc, name)
		}
		in := instr{pc: pc, name: name, k: -1}
		q := pc + 1
		for _, o := range spec.operands {
			switch o {
			case 'k', 'n', 't':
				if q+2 > len(code) {
					return fmt.Errorf("pc %d: %s: operand runs past the end of the code", pc, name)
				}
				v := int(code[q])<<8 | int(code[q+1])
				q += 2
				switch o {
				case 'k':
					in.k = v
				case 'n':
					in.n = v
				case 't':
					in.t = v
				}
				if v > 255 {
					st.WideOperand = true
				}
			case 'a':
				if q+1 > len(code) {
					return fmt.Errorf("pc %d: %s: operand runs past the end of the code", pc, name)
				}
				in.a = int(code[q])
				q++
			}
		}
		in.width = q - pc
		if in.k >= len(consts) {
			return fmt.Errorf("pc %d: %s: constant index %d out of range (%d constants)", pc, name, in.k, len(consts))
		}
		boundary[pc] = len(ins)
		ins = append(ins, in)
		pc = q
	}
	st.Instructions += len(ins)
	last := ins[len(ins)-1]
	if last.name != "OP_RETURN" {
		return fmt.Errorf("code does not end with OP_RETURN but with %s", last.name)
	}
	// ---- 2. operand kinds, pops
	pops := make([]int, len(ins))
	thunkConst := make([]bool, len(ins))
	for i, in := range ins {
		spec := opTable[in.name]
		pops[i] = spec.pops
		switch in.name {
		case "OP_CONST":
			v, ok := consts[in.k].(*val.Val)
			if !ok || v == nil || v.Type == nil {
				return fmt.Errorf("pc %d: OP_CONST operand %d is %T, not a value", in.pc, in.k, consts[in.k])
			}
			if body, isThunk := vm.VerifThunkBody(v); isThunk {
				thunkConst[i] = true
				st.Thunks++
				if err := verifyBody(body, names, st, depth+1); err != nil {
					return fmt.Errorf("thunk body of constant %d: %v", in.k, err)
				}
			}
		case "OP_LOAD", "OP_OBJ_LOAD":
			if _, ok := consts[in.k].(string); !ok {
				return fmt.Errorf("pc %d: %s operand %d is %T, not a name", in.pc, in.name, in.k, consts[in.k])
			}
		case "OP_NEW_LIST", "OP_NEW_MAP", "OP_NEW_OBJ":
			ty, ok := consts[in.k].(*types.Type)
			if !ok || ty == nil {
				return fmt.Errorf("pc %d: %s operand %d is %T, not a type", in.pc, in.name, in.k, consts[in.k])
			}
			switch in.name {
			case "OP_NEW_LIST":
				if ty.Kind != types.KList {
					return fmt.Errorf("pc %d: OP_NEW_LIST with type %s", in.pc, ty)
				}
				pops[i] = in.n
			case "OP_NEW_MAP":
				if ty.Kind != types.KMap {
					return fmt.Errorf("pc %d: OP_NEW_MAP with type %s", in.pc, ty)
				}
				pops[i] = 2 * in.n
			default:
				if ty.Kind != types.KObj {
					return fmt.Errorf("pc %d: OP_NEW_OBJ with type %s", in.pc, ty)
				}
				pops[i] = len(ty.Obj().Fields)
			}
		case "OP_CALL_BY_VALUE", "OP_CALL_BY_NEED":
			v, ok := consts[in.k].(*val.Val)
			if !ok || v == nil || v.Type == nil || v.Type.Kind != types.KFun {
				return fmt.Errorf("pc %d: %s operand %d is not a function value", in.pc, in.name, in.k)
			}
			if _, isThunk := vm.VerifThunkBody(v); isThunk {
				return fmt.Errorf("pc %d: %s calls a thunk constant", in.pc, in.name)
			}
			f := v.Fun()
			if f.Lazy != (in.name == "OP_CALL_BY_NEED") {
				return fmt.Errorf("pc %d: %s with a function whose lazy flag is %v", in.pc, in.name, f.Lazy)
			}
			if np := len(v.Type.Fun().Param); np != in.a {
				return fmt.Errorf("pc %d: %s passes %d arguments to a function of %d parameters", in.pc, in.name, in.a, np)
			}
			pops[i] = in.a
		case "OP_DYNAMIC_CALL":
			pops[i] = in.a + 1
		case "OP_IF_TRUE", "OP_JUMP":
			st.Jumps++
			if in.t <= in.pc {
				return fmt.Errorf("pc %d: %s targets %d, which is not a later instruction", in.pc, in.name, in.t)
			}
			if _, ok := boundary[in.t]; !ok {
				return fmt.Errorf("pc %d: %s targets %d, which is not an instruction boundary inside the code (%d bytes)", in.pc, in.name, in.t, len(code))
			}
		}
	}
	// ---- 3. abstract interpretation of the stack (depth and thunk/value tags)
	type state struct {
		tags []byte // 'T' thunk constant, 'V' value
		path int    // longest path (instructions executed) to reach here
	}
	states := make([]*state, len(ins))
	states[0] = &state{}
	merge := func(j int, s *state, from int) error {
		if states[j] == nil {
			states[j] = &state{tags: append([]byte(nil), s.tags...), path: s.path}
			return nil
		}
		o := states[j]
		if len(o.tags) != len(s.tags) {
			return fmt.Errorf("pc %d: stack depth %d on one path and %d on another (from pc %d)", ins[j].pc, len(o.tags), len(s.tags), ins[from].pc)
		}
		for k := range o.tags {
			if o.tags[k] != s.tags[k] {
				return fmt.Errorf("pc %d: stack slot %d holds a thunk on one path and a value on another", ins[j].pc, k)
			}
		}
		if s.path > o.path {
			o.path = s.path
		}
		return nil
	}
	returned := false
	for i, in := range ins {
		s := states[i]
		if s == nil {
			st.Unreachable++
			continue
		}
		if len(s.tags) > st.MaxDepth {
			st.MaxDepth = len(s.tags)
		}
		if pops[i] > len(s.tags) {
			return fmt.Errorf("pc %d: %s pops %d values from a stack of %d", in.pc, in.name, pops[i], len(s.tags))
		}
		popped := s.tags[len(s.tags)-pops[i]:]
		for _, tg := range popped {
			if in.name == "OP_CALL_BY_NEED" {
				if tg != 'T' {
					return fmt.Errorf("pc %d: OP_CALL_BY_NEED receives an evaluated value where a deferred argument (thunk) is required", in.pc)
				}
			} else if tg == 'T' {
				return fmt.Errorf("pc %d: %s consumes a thunk constant as a value", in.pc, in.name)
			}
		}
		ns := &state{tags: append([]byte(nil), s.tags[:len(s.tags)-pops[i]]...), path: s.path + 1}
		if opTable[in.name].pushes == 1 {
			tg := byte('V')
			if thunkConst[i] {
				tg = 'T'
			}
			ns.tags = append(ns.tags, tg)
		}
		switch in.name {
		case "OP_RETURN":
			if len(s.tags) != 1 {
				return fmt.Errorf("pc %d: OP_RETURN with stack depth %d (must be exactly 1)", in.pc, len(s.tags))
			}
			if i != len(ins)-1 {
				return fmt.Errorf("pc %d: OP_RETURN is not the last instruction", in.pc)
			}
			returned = true
			if ns.path > st.LongestPath {
				st.LongestPath = ns.path
			}
			if ns.path > len(ins) {
				return fmt.Errorf("longest execution path %d exceeds the number of emitted instructions %d", ns.path, len(ins))
			}
		case "OP_JUMP":
			if err := merge(boundary[in.t], ns, i); err != nil {
				return err
			}
		case "OP_IF_TRUE":
			if err := merge(boundary[in.t], ns, i); err != nil {
				return err
			}
			if err := merge(i+1, ns, i); err != nil {
				return err
			}
		default:
			if i+1 >= len(ins) {
				return fmt.Errorf("pc %d: execution runs past the end of the code", in.pc)
			}
			if err := merge(i+1, ns, i); err != nil {
				return err
			}
		}
	}
	if !returned {
		return fmt.Errorf("the final OP_RETURN is unreachable")
	}
	return nil
}
