package run

import (
	"fmt"
	"github.com/goghcrow/yae"

	"github.com/goghcrow/yae/parser"
	"github.com/goghcrow/yae/parser/ast"
	"github.com/goghcrow/yae/parser/lexer"
	"github.com/goghcrow/yae/parser/oper"
	"github.com/goghcrow/yae/parser/pos"
	"github.com/goghcrow/yae/parser/token"

	m "verif/model"
	"verif/ref"
)

// YaeOps converts a reference operator table to yae's.
func YaeOps(ops []ref.Op) []oper.Operator {
	out := make([]oper.Operator, len(ops))
	for i, o := range ops {
		fx := map[string]oper.Fixity{"prefix": oper.PREFIX, "postfix": oper.POSTFIX, "infixl": oper.INFIX_L, "infixr": oper.INFIX_R, "infixn": oper.INFIX_N}[o.Fix]
		out[i] = oper.Operator{Kind: token.Kind(o.Name), BP: oper.BP(o.BP), Fixity: fx}
	}
	return out
}

// YaeParse lexes and parses src under an operator table (nil: built-in).
func YaeParse(src string, ops []ref.Op) (tree ast.Expr, p *Panic) {
	p = Guard(func() {
		var yo []oper.Operator
		if ops == nil {
			yo = append(yo, oper.BuiltIn()...)
		} else {
			yo = YaeOps(ops)
		}
		toks := lexer.NewLexer(append([]oper.Operator(nil), yo...)).Lex(src)
		tree = parser.NewParser(append([]oper.Operator(nil), yo...)).Parse(toks)
	})
	return
}

// YaeParseFacade parses src through the public engine: the custom operators are registered on
// a yae.Expr (the built-in table is added by the engine itself), either before the engine is
// first used or after it has already parsed something.
func YaeParseFacade(src string, custom []ref.Op, lateRegistration bool) (tree ast.Expr, p *Panic) {
	p = Guard(func() {
		e := yae.NewExpr()
		if lateRegistration {
			_ = Guard(func() { e.Parse("1 + 1") })
		}
		e.RegisterOperator(YaeOps(custom)...)
		tree = e.Parse(src)
	})
	return
}

func setPos(e *m.Expr, p pos.Pos) *m.Expr {
	e.Start, e.End, e.Line, e.Col = p.Idx, p.IdxEnd, p.Line, p.Col
	return e
}

// FromAst converts a yae tree (surface or desugared) to the model, keeping
// each node's recorded Position().
func FromAst(e ast.Expr) *m.Expr { return fromAst(e, false) }

// FromAstCore converts a desugared tree: there a call whose callee is a
// member expression is a dynamic call of the field's value, not method-call
// notation.
func FromAstCore(e ast.Expr) *m.Expr { return fromAst(e, true) }

func fromAst(e ast.Expr, core bool) *m.Expr {
	FromAst := func(x ast.Expr) *m.Expr { return fromAst(x, core) }
	switch x := e.(type) {
	case *ast.StrExpr:
		return setPos(m.Lit("str", x.Text), x.Pos)
	case *ast.NumExpr:
		return setPos(m.Lit("num", x.Text), x.Pos)
	case *ast.TimeExpr:
		return setPos(m.Lit("time", x.Text), x.Pos)
	case *ast.BoolExpr:
		return setPos(m.Lit("bool", x.Text), x.Pos)
	case *ast.IdentExpr:
		return setPos(m.V(x.Name), x.Pos)
	case *ast.ListExpr:
		out := m.ListE()
		for _, el := range x.Elems {
			out.A = append(out.A, FromAst(el))
		}
		return setPos(out, x.Pos)
	case *ast.MapExpr:
		out := m.MapE()
		for _, pr := range x.Pairs {
			out.A = append(out.A, FromAst(pr.Key), FromAst(pr.Val))
		}
		return setPos(out, x.Pos)
	case *ast.ObjExpr:
		out := &m.Expr{K: "obj"}
		for _, f := range x.Fields {
			out.Keys = append(out.Keys, f.Name)
			out.A = append(out.A, FromAst(f.Val))
		}
		return setPos(out, x.Pos)
	case *ast.UnaryExpr:
		if x.Prefix {
			return setPos(m.Prefix(x.Name, FromAst(x.LHS)), x.Pos)
		}
		return setPos(m.Postfix(x.Name, FromAst(x.LHS)), x.Pos)
	case *ast.BinaryExpr:
		return setPos(m.Infix(x.Name, FromAst(x.LHS), FromAst(x.RHS)), x.Pos)
	case *ast.TenaryExpr:
		return setPos(m.Tern(FromAst(x.Left), FromAst(x.Mid), FromAst(x.Right)), x.Pos)
	case *ast.GroupExpr:
		return setPos(m.Group(FromAst(x.SubExpr)), x.Pos)
	case *ast.SubscriptExpr:
		return setPos(m.Index(FromAst(x.Var), FromAst(x.Idx)), x.Pos)
	case *ast.MemberExpr:
		return setPos(m.Member(FromAst(x.Obj), x.Field.Name), x.Pos)
	case *ast.CallExpr:
		args := make([]*m.Expr, len(x.Args))
		for i, a := range x.Args {
			args[i] = FromAst(a)
		}
		switch c := x.Callee.(type) {
		case *ast.MemberExpr:
			if core {
				return setPos(m.DCall(FromAst(x.Callee), args...), x.Pos)
			}
			return setPos(m.MCall(c.Field.Name, FromAst(c.Obj), args...), x.Pos)
		case *ast.IdentExpr:
			return setPos(m.Call(c.Name, args...), x.Pos)
		default:
			return setPos(m.DCall(FromAst(x.Callee), args...), x.Pos)
		}
	case nil:
		return &m.Expr{K: "nil!"}
	}
	return &m.Expr{K: fmt.Sprintf("%T!", e)}
}

// ToAst builds a yae tree from a CORE model tree with explicit call nodes
// (the way test/util_test.go builds trees), positions unknown.
func ToAst(e *m.Expr) ast.Expr {
	u := pos.Unknown
	switch e.K {
	case "num":
		return ast.Num(e.Text, u)
	case "str":
		return ast.Str(e.Text, u)
	case "time":
		return ast.Time(e.Text, u)
	case "bool":
		if e.Text == "true" {
			return ast.True(u)
		}
		return ast.False(u)
	case "var":
		return ast.Var(e.Name, u)
	case "list":
		xs := make([]ast.Expr, len(e.A))
		for i, a := range e.A {
			xs[i] = ToAst(a)
		}
		return ast.List(xs, u)
	case "map":
		var ps []ast.Pair
		for i := 0; i+1 < len(e.A); i += 2 {
			ps = append(ps, ast.Pair{Key: ToAst(e.A[i]), Val: ToAst(e.A[i+1])})
		}
		if ps == nil {
			ps = []ast.Pair{}
		}
		return ast.Map(ps, u)
	case "obj":
		fs := make([]ast.Field, len(e.A))
		for i, a := range e.A {
			fs[i] = ast.Field{Name: e.Keys[i], Val: ToAst(a)}
		}
		return ast.Obj(fs, u)
	case "member":
		return ast.Member(ToAst(e.A[0]), ast.Var(e.Name, u), pos.UnknownCol, u)
	case "index":
		return ast.Subscript(ToAst(e.A[0]), ToAst(e.A[1]), pos.UnknownCol, u)
	case "call":
		xs := make([]ast.Expr, len(e.A))
		for i, a := range e.A {
			xs[i] = ToAst(a)
		}
		return ast.Call(ast.Var(e.Name, u), xs, pos.UnknownCol, u)
	case "dcall":
		xs := make([]ast.Expr, len(e.A)-1)
		for i, a := range e.A[1:] {
			xs[i] = ToAst(a)
		}
		return ast.Call(ToAst(e.A[0]), xs, pos.UnknownCol, u)
	}
	panic("ToAst: not a core node: " + e.K)
}
