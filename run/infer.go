package run

import (
	"github.com/goghcrow/yae"
	"github.com/goghcrow/yae/fun"
	"github.com/goghcrow/yae/parser/ast"
	"github.com/goghcrow/yae/trans"
	"github.com/goghcrow/yae/types"

	"verif/model"
	"verif/ref"
)

// InferType runs lex | parse | desugar | typecheck through the exported
// pieces (exactly what Expr.CompileExpr does before compiling) and returns
// the inferred type and the annotated tree.
func InferType(src string, tenv map[string]*model.Type, extra []ref.FunSig) (ty *model.Type, tree ast.Expr, err error, p *Panic) {
	var yt *types.Type
	p = Guard(func() {
		e := yae.NewExpr()
		parsed := e.Parse(src)
		tree = trans.Desugar(parsed)
		fenv := types.NewEnv()
		for _, f := range fun.BuiltIn() {
			fenv.RegisterFun(f.Type)
		}
		for _, f := range extra {
			fenv.RegisterFun(MakeHarnessFun(f, &Tracer{}).Type)
		}
		env := TypeEnv(tenv).Inherit(fenv)
		yt, err = types.Infer(tree, env)
	})
	if p == nil && err == nil && yt != nil {
		ty = FromYaeType(yt)
	}
	return
}

// BuiltInSignatures renders fun.BuiltIn() as model signatures (for the
// once-per-run cross-check of the harness's hard-coded table).
func BuiltInSignatures() []*model.Type {
	var out []*model.Type
	for _, f := range fun.BuiltIn() {
		c := NewTyCtx()
		out = append(out, c.From(f.Type))
	}
	return out
}

// BuiltInLazy reports which built-ins are lazy, by name+arity.
func BuiltInLazy() map[string]bool {
	out := map[string]bool{}
	for _, f := range fun.BuiltIn() {
		if f.Fun().Lazy {
			out[f.Type.Fun().Name] = true
		}
	}
	return out
}

// InferTypeEnv is InferType with a ready typing environment (e.g. one that
// conv.TypeEnvOf derived from host data).
func InferTypeEnv(src string, tenv *types.Env) (ty *model.Type, err error, p *Panic) {
	var yt *types.Type
	p = Guard(func() {
		e := yae.NewExpr()
		tree := trans.Desugar(e.Parse(src))
		fenv := types.NewEnv()
		for _, f := range fun.BuiltIn() {
			fenv.RegisterFun(f.Type)
		}
		yt, err = types.Infer(tree, tenv.Extend(fenv))
	})
	if p == nil && err == nil && yt != nil {
		ty = FromYaeType(yt)
	}
	return
}
