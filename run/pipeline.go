package run

import (
	"bytes"
	"fmt"
	"io"
	"os"
	"runtime"
	"strings"
	"sync"

	"github.com/goghcrow/yae"
	"github.com/goghcrow/yae/closure"
	"github.com/goghcrow/yae/compiler"
	"github.com/goghcrow/yae/fun"
	"github.com/goghcrow/yae/interp"
	"github.com/goghcrow/yae/types"
	"github.com/goghcrow/yae/val"
	"github.com/goghcrow/yae/vm"

	"verif/model"
	"verif/ref"
)

type Backend int

const (
	VMSwitch Backend = iota
	VMCall
	Closure
	Interp
)

var AllBackends = []Backend{VMSwitch, VMCall, Closure, Interp}

func (b Backend) String() string {
	return [...]string{"vm-switch", "vm-call", "closure", "interp"}[b]
}

func (b Backend) compiler() compiler.Compiler {
	switch b {
	case VMSwitch:
		return vm.Compile
	case VMCall:
		return vm.VerifCompileCallThreaded
	case Closure:
		return closure.Compile
	default:
		return interp.Interp
	}
}

// Guard runs f, turning a panic into *Panic.
func Guard(f func()) (p *Panic) {
	defer func() {
		if r := recover(); r != nil {
			_, isRT := r.(runtime.Error)
			p = &Panic{Val: r, Runtime: isRT, Text: fmt.Sprint(r)}
		}
	}()
	f()
	return nil
}

// Tracer collects the effect log of one evaluation.
type Tracer struct {
	mu  sync.Mutex
	Log []string
	// Hook, when set, runs inside every call of the harness function tr before it logs: the
	// harness gets control in the middle of an evaluation (re-entrant invocations)
	Hook func()
}

func (t *Tracer) Add(s string) {
	t.mu.Lock()
	t.Log = append(t.Log, s)
	t.mu.Unlock()
}
func (t *Tracer) Reset() {
	t.mu.Lock()
	t.Log = nil
	t.mu.Unlock()
}
func (t *Tracer) Snapshot() []string {
	t.mu.Lock()
	defer t.mu.Unlock()
	return append([]string(nil), t.Log...)
}

// Engine is one yae.Expr instance with harness functions registered.
type Engine struct {
	E        *yae.Expr
	Tr       *Tracer
	Funs     map[string]*val.Val // harness function values by Impl key
	Be       Backend
	tyctx    *TyCtx
	regOrder []string // Impl keys of the registered harness functions, in registration order
	// Shared: names whose values are built with repeated sub-values being one shared value
	Shared map[string]bool
}

// NewEngine creates a fresh engine on a back end and registers the given
// extra signatures (in order) after the built-ins.
func NewEngine(be Backend, extra []ref.FunSig) *Engine {
	en := &Engine{E: yae.NewExpr(), Tr: &Tracer{}, Funs: map[string]*val.Val{}, Be: be}
	en.E.UseCompiler(be.compiler())
	if be == VMCall || be == Interp {
		// these two engines also log every stage (tokens, trees, inferred type) to a writer that
		// discards: enabling the log must not change any outcome
		en.E.EnableDebug(io.Discard)
	}
	for _, f := range extra {
		fv, again := en.Funs[f.Impl]
		if !again {
			// a signature listed twice is ONE function value registered twice
			fv = MakeHarnessFun(f, en.Tr)
		}
		en.Funs[f.Impl] = fv
		en.regOrder = append(en.regOrder, f.Impl)
		en.E.RegisterFun(fv)
	}
	return en
}

// TypeEnv / ValEnv build fresh raw environments from the model.
func TypeEnv(env map[string]*model.Type) *types.Env {
	te := types.NewEnv()
	c := NewTyCtx()
	for _, n := range sortedKeys(env) {
		te.Put(n, c.To(env[n]))
	}
	return te
}

// ValEnvWithFuns is ValEnv with the built-in and the engine's harness functions registered in the
// run-time environment itself: what a closure obtained from Expr.CompileExpr (instead of the
// facade's Callable) needs when the back end resolves functions at evaluation time (interp).
func (en *Engine) ValEnvWithFuns(env map[string]*model.Val) *val.Env {
	ve := en.ValEnv(env)
	for _, f := range fun.BuiltIn() {
		ve.RegisterFun(f)
	}
	names := make([]string, 0, len(en.Funs))
	for n := range en.Funs {
		names = append(names, n)
	}
	sortStrings(names)
	for _, n := range en.regOrder {
		ve.RegisterFun(en.Funs[n])
	}
	return ve
}

// TypeEnvShared is TypeEnv with identical (same written order) composite sub-terms being ONE
// *types.Type object, within a binding and across bindings - what a host that declares its
// schema from shared type values builds.
func TypeEnvShared(env map[string]*model.Type) *types.Env {
	te := types.NewEnv()
	c := NewTyCtx()
	c.Share = true
	for _, n := range sortedKeys(env) {
		te.Put(n, c.To(env[n]))
	}
	return te
}

// TypeEnvLayered: the same bindings as a chain of environments (types.Env.Derive): the names
// alternate between an outer and an inner layer. (At the pinned commit Compile refuses such an
// environment; a tree that accepts it must still check every name of every layer at invocation.)
func TypeEnvLayered(env map[string]*model.Type) *types.Env {
	outer := types.NewEnv()
	c := NewTyCtx()
	keys := sortedKeys(env)
	for i, n := range keys {
		if i%2 == 0 {
			outer.Put(n, c.To(env[n]))
		}
	}
	inner := outer.Derive()
	for i, n := range keys {
		if i%2 == 1 {
			inner.Put(n, c.To(env[n]))
		}
	}
	return inner
}

func (en *Engine) ValEnv(env map[string]*model.Val) *val.Env {
	ve := val.NewEnv()
	for _, n := range sortedValKeys(env) {
		if en.Shared[n] {
			ve.Put(n, ToYaeValShared(env[n], en.lookupFun))
			continue
		}
		ve.Put(n, ToYaeVal(env[n], en.lookupFun))
	}
	return ve
}

// ValEnvIncremental is ValEnv with every value assembled step by step (ToYaeValIncremental):
// lists grown with Add have spare capacity in their slices, as hand-built host values do.
func (en *Engine) ValEnvIncremental(env map[string]*model.Val) *val.Env {
	ve := val.NewEnv()
	for _, n := range sortedValKeys(env) {
		ve.Put(n, ToYaeValIncremental(env[n], en.lookupFun))
	}
	return ve
}

func (en *Engine) lookupFun(name string, t *model.Type) *val.Val {
	if fv, ok := en.Funs[name]; ok {
		return fv
	}
	// a free-standing function value (bound to a variable, not registered)
	fv := MakeHarnessFun(ref.FunSig{Name: name, Params: t.Params(), Ret: t.Ret(), Impl: name, Lazy: strings.HasPrefix(name, "lz_")}, en.Tr)
	en.Funs[name] = fv
	return fv
}

func sortedKeys(m map[string]*model.Type) []string {
	ks := make([]string, 0, len(m))
	for k := range m {
		ks = append(ks, k)
	}
	sortStrings(ks)
	return ks
}
func sortedValKeys(m map[string]*model.Val) []string {
	ks := make([]string, 0, len(m))
	for k := range m {
		ks = append(ks, k)
	}
	sortStrings(ks)
	return ks
}
func sortStrings(xs []string) {
	for i := 1; i < len(xs); i++ {
		for j := i; j > 0 && xs[j] < xs[j-1]; j-- {
			xs[j], xs[j-1] = xs[j-1], xs[j]
		}
	}
}

// Outcome of compile + one invocation on one back end.
type Outcome struct {
	Be         Backend
	CompileErr error  // Compile returned an error
	CompilePan *Panic // Compile panicked (never allowed)
	RunErr     error  // the Callable returned an error
	RunPan     *Panic // the Callable panicked
	Val        *val.Val
	Trace      []string
}

func (o *Outcome) Compiled() bool { return o.CompileErr == nil && o.CompilePan == nil }
func (o *Outcome) Failed() bool   { return o.RunErr != nil || o.RunPan != nil }
func (o *Outcome) FailText() string {
	if o.RunErr != nil {
		return o.RunErr.Error()
	}
	if o.RunPan != nil {
		return o.RunPan.Text
	}
	return ""
}
func (o *Outcome) RuntimeFault() bool { return o.RunPan != nil && o.RunPan.Runtime }

// CompileSrc compiles src against a fresh copy of the typing environment.
func (en *Engine) CompileSrc(src string, tenv map[string]*model.Type) (c yae.Callable, err error, p *Panic) {
	te := TypeEnv(tenv)
	p = Guard(func() { c, err = en.E.Compile(src, te) })
	return
}

// RunSrc compiles and invokes once with fresh environment objects.
func (en *Engine) RunSrc(src string, tenv map[string]*model.Type, venv map[string]*model.Val) *Outcome {
	o := &Outcome{Be: en.Be}
	c, err, p := en.CompileSrc(src, tenv)
	o.CompileErr, o.CompilePan = err, p
	if !o.Compiled() {
		return o
	}
	en.Invoke(c, venv, o)
	return o
}

func (en *Engine) Invoke(c yae.Callable, venv map[string]*model.Val, o *Outcome) {
	en.Tr.Reset()
	ve := en.ValEnv(venv)
	o.RunPan = Guard(func() { o.Val, o.RunErr = c(ve) })
	o.Trace = en.Tr.Snapshot()
}

// CaptureStdout runs f with os.Stdout redirected and returns what was written.
var stdoutMu sync.Mutex

func CaptureStdout(f func()) string {
	stdoutMu.Lock()
	defer stdoutMu.Unlock()
	old := os.Stdout
	r, w, err := os.Pipe()
	if err != nil {
		f()
		return ""
	}
	os.Stdout = w
	done := make(chan string)
	go func() {
		var b bytes.Buffer
		_, _ = io.Copy(&b, r)
		done <- b.String()
	}()
	func() {
		defer func() {
			os.Stdout = old
			_ = w.Close()
		}()
		f()
	}()
	out := <-done
	_ = r.Close()
	return out
}
