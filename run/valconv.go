package run

import (
	"fmt"
	"sort"
	"strconv"
	"strings"
	"time"

	"github.com/goghcrow/yae/types"
	"github.com/goghcrow/yae/val"

	"verif/model"
)

// FunLookup resolves a model function value (by harness name) to a yae value.
type FunLookup func(name string, t *model.Type) *val.Val

// ToYaeVal builds a yae value through the exported constructors, the way a
// caller assembling a raw environment would. Every object occurrence keeps
// the field order written in its own model type.
func ToYaeVal(v *model.Val, funs FunLookup) *val.Val {
	c := NewTyCtx()
	return toYaeVal(c, v, funs)
}

// ToYaeValShared is ToYaeVal with hash-consing: sub-values of one type that read alike become
// one *val.Val, reachable several times (what a variable mentioned twice, or a host that
// reuses a value, produces).
func ToYaeValShared(v *model.Val, funs FunLookup) *val.Val {
	c := NewTyCtx()
	c.share = map[string]*val.Val{}
	return toYaeVal(c, v, funs)
}

func toYaeVal(c *TyCtx, v *model.Val, funs FunLookup) *val.Val {
	if c.share != nil && v.T.K != model.TFun {
		k := v.T.OrderString() + "|" + v.Render()
		if y, ok := c.share[k]; ok {
			return y
		}
		y := toYaeVal1(c, v, funs)
		c.share[k] = y
		return y
	}
	return toYaeVal1(c, v, funs)
}

func toYaeVal1(c *TyCtx, v *model.Val, funs FunLookup) *val.Val {
	switch v.T.K {
	case model.TNum:
		return val.Num(float64(v.N))
	case model.TStr:
		return val.Str(v.S)
	case model.TBool:
		return val.Bool(v.B)
	case model.TTime:
		return val.Time(v.Tm.Go())
	case model.TList:
		l := val.List(c.To(v.T).List(), len(v.L)).List()
		for i, e := range v.L {
			l.Set(i, toYaeVal(c, e, funs))
		}
		return l.Vl()
	case model.TMap:
		mp := val.Map(c.To(v.T).Map()).Map()
		for _, e := range v.M {
			mp.Put(toYaeVal(c, e.K, funs), toYaeVal(c, e.V, funs))
		}
		return mp.Vl()
	case model.TObj:
		o := val.Obj(c.To(v.T).Obj()).Obj()
		for i, e := range v.L {
			o.V[i] = toYaeVal(c, e, funs)
		}
		return o.Vl()
	case model.TMaybe:
		el := c.To(v.T.El())
		if v.P == nil {
			return val.Nothing(el)
		}
		return val.Just(el, toYaeVal(c, v.P, funs))
	case model.TFun:
		if funs == nil {
			panic("function value without lookup")
		}
		return funs(v.Fn, v.T)
	}
	panic(fmt.Sprintf("ToYaeVal: kind %s", v.T.K))
}

// ToYaeValIncremental builds the value the way a host that assembles it step by step does:
// containers are attached to their parent while still empty and filled afterwards (ListVal.Add,
// MapVal.Put), and after every step the root is rendered (String()) - an observer between the
// steps, e.g. logging. The finished value must be indistinguishable from ToYaeVal's.
func ToYaeValIncremental(v *model.Val, funs FunLookup) *val.Val {
	c := NewTyCtx()
	var root *val.Val
	observe := func() {
		if root != nil {
			_ = root.String()
		}
	}
	var build func(v *model.Val) (*val.Val, []func())
	build = func(v *model.Val) (*val.Val, []func()) {
		switch v.T.K {
		case model.TList:
			l := val.List(c.To(v.T).List(), 0).List()
			return l.Vl(), []func(){func() {
				for _, e := range v.L {
					child, fs := build(e)
					l.Add(child)
					observe()
					for _, f := range fs {
						f()
					}
				}
			}}
		case model.TMap:
			mp := val.Map(c.To(v.T).Map()).Map()
			return mp.Vl(), []func(){func() {
				for _, e := range v.M {
					child, fs := build(e.V)
					mp.Put(toYaeVal(c, e.K, funs), child)
					observe()
					for _, f := range fs {
						f()
					}
				}
			}}
		case model.TObj:
			o := val.Obj(c.To(v.T).Obj()).Obj()
			var all []func()
			for i, e := range v.L {
				child, fs := build(e)
				o.V[i] = child
				all = append(all, fs...)
			}
			return o.Vl(), all
		case model.TMaybe:
			if v.P != nil {
				child, fs := build(v.P)
				return val.Just(c.To(v.T.El()), child), fs
			}
		}
		return toYaeVal1(c, v, funs), nil
	}
	var fs []func()
	root, fs = build(v)
	observe()
	for _, f := range fs {
		f()
	}
	observe()
	return root
}

// Walk is the checked reading of a yae value against an expected type.
type Walk struct {
	Problems []string
	tyCache  map[*types.Type]*model.Type
	nodes    int
}

func (w *Walk) problem(path, format string, a ...interface{}) {
	if len(w.Problems) < 8 {
		w.Problems = append(w.Problems, path+": "+fmt.Sprintf(format, a...))
	}
}

func (w *Walk) typeOf(y *types.Type) *model.Type {
	if w.tyCache == nil {
		w.tyCache = map[*types.Type]*model.Type{}
	}
	if t, ok := w.tyCache[y]; ok {
		return t
	}
	t := FromYaeType(y)
	w.tyCache[y] = t
	return t
}

// FromYaeVal reads v, checking at every node that the value's type tag equals
// the type its position demands (want; nil = trust the value's own tag at the
// root), that no component is nil, that optional payloads have the element
// type and that map entries sit under the key their text denotes.
func FromYaeVal(v *val.Val, want *model.Type) (*model.Val, []string) {
	w := &Walk{}
	out := w.read(v, want, "$")
	return out, w.Problems
}

const maxWalkNodes = 2_000_000

func (w *Walk) read(v *val.Val, want *model.Type, path string) *model.Val {
	w.nodes++
	if w.nodes > maxWalkNodes {
		w.problem(path, "value too large to walk")
		return nil
	}
	if v == nil {
		w.problem(path, "nil component (expected %s)", want)
		return nil
	}
	if v.Type == nil {
		w.problem(path, "value with nil type tag")
		return nil
	}
	own := w.typeOf(v.Type)
	if want != nil {
		if !model.Equal(own, want) {
			w.problem(path, "value of type %s where %s is required", own, want)
			return nil
		}
	}
	switch v.Type.Kind {
	case types.KNum:
		return model.VNum(v.Num().V)
	case types.KStr:
		return model.VStr(v.Str().V)
	case types.KBool:
		return model.VBool(v.Bool().V)
	case types.KTime:
		return model.VTime(timeV(v.Time().V))
	case types.KList:
		out := &model.Val{T: own}
		for i, e := range v.List().V {
			x := w.read(e, own.El(), fmt.Sprintf("%s[%d]", path, i))
			if x == nil {
				return nil
			}
			out.L = append(out.L, x)
		}
		return out
	case types.KMap:
		out := &model.Val{T: own}
		mp := v.Map().V
		keys := make([]val.Key, 0, len(mp))
		for k := range mp {
			keys = append(keys, k)
		}
		sort.Slice(keys, func(i, j int) bool { return keys[i].String() < keys[j].String() })
		for _, k := range keys {
			kv, err := keyFromText(k.String(), own.Key())
			if err != nil {
				w.problem(path, "map key text %q is not a %s: %v", k.String(), own.Key(), err)
				return nil
			}
			x := w.read(mp[k], own.Val(), fmt.Sprintf("%s[%s]", path, k.String()))
			if x == nil {
				return nil
			}
			if out.MapGetExact(kv) != nil {
				w.problem(path, "two entries denote the same key %s", kv.Render())
				return nil
			}
			out.M = append(out.M, model.Entry{K: kv, V: x})
		}
		return out
	case types.KObj:
		out := &model.Val{T: own}
		fs := v.Obj().V
		if len(fs) != len(own.F) {
			w.problem(path, "object with %d values for %d fields", len(fs), len(own.F))
			return nil
		}
		for i, e := range fs {
			x := w.read(e, own.F[i].T, path+"."+own.F[i].Name)
			if x == nil {
				return nil
			}
			out.L = append(out.L, x)
		}
		return out
	case types.KMaybe:
		out := &model.Val{T: own}
		if p := v.Maybe().V; p != nil {
			x := w.read(p, own.El(), path+"?")
			if x == nil {
				return nil
			}
			out.P = x
		}
		return out
	case types.KFun:
		return &model.Val{T: own, Fn: FunName(v)}
	}
	w.problem(path, "value of unexpected kind %s", v.Type.Kind)
	return nil
}

func timeV(t time.Time) model.TimeV {
	name, off := t.Zone()
	z := name
	if t.Location() == time.UTC {
		z = ""
	} else if t.Location() == time.Local {
		z = "Local"
	}
	return model.TimeV{Unix: t.Unix(), Nano: t.Nanosecond(), Off: off, Zone: z}
}

const goTimeLayout = "2006-01-02 15:04:05.999999999 -0700 MST"

func keyFromText(s string, kt *model.Type) (*model.Val, error) {
	switch kt.K {
	case model.TNum:
		x, err := strconv.ParseFloat(s, 64)
		if err != nil {
			return nil, err
		}
		return model.VNum(x), nil
	case model.TStr:
		u, err := strconv.Unquote(s)
		if err != nil {
			return nil, err
		}
		return model.VStr(u), nil
	case model.TBool:
		b, err := strconv.ParseBool(s)
		if err != nil {
			return nil, err
		}
		return model.VBool(b), nil
	case model.TTime:
		u, err := strconv.Unquote(s)
		if err != nil {
			return nil, err
		}
		// "2006-01-02 15:04:05.999999999 -0700 MST": the zone abbreviation can be any
		// text, so read the instant from the part before it
		i := strings.LastIndexByte(u, ' ')
		if i < 0 {
			return nil, fmt.Errorf("not a time rendering")
		}
		t, err := time.Parse("2006-01-02 15:04:05.999999999 -0700", u[:i])
		if err != nil {
			// years outside 0000..9999 and the like: keep the key as an opaque
			// instant derived from its text (equal texts, equal keys)
			return model.VTime(model.TimeV{Unix: int64(hashText(u) % (1 << 40)), Zone: "opaque:" + u}), nil
		}
		_, off := t.Zone()
		return model.VTime(model.TimeV{Unix: t.Unix(), Nano: t.Nanosecond(), Off: off, Zone: u[i+1:]}), nil
	case model.TBot:
		return nil, fmt.Errorf("entry in a map of ⊥ keys")
	}
	return nil, fmt.Errorf("key type %s", kt)
}

// function values created by the harness carry their name here
var funNames = map[*val.Val]string{}

func FunName(v *val.Val) string {
	funNamesMu.Lock()
	defer funNamesMu.Unlock()
	if n, ok := funNames[v]; ok {
		return n
	}
	return "?"
}

func hashText(s string) uint64 {
	h := uint64(14695981039346656037)
	for i := 0; i < len(s); i++ {
		h ^= uint64(s[i])
		h *= 1099511628211
	}
	return h
}
