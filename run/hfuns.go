package run

import (
	"fmt"
	"strings"
	"sync"

	"github.com/goghcrow/yae/types"
	"github.com/goghcrow/yae/val"

	m "verif/model"
	"verif/ref"
)

// Harness-registered functions ("user-registered strict / lazy / polymorphic
// functions"). Each has a yae-side implementation (below) and reference
// semantics (RefHarness); both write the same effect-log lines.
//
//	tr      :: ∀a. num → a → a          strict; logs, returns its 2nd argument
//	boom    :: ∀a. a → a                strict; always fails (marker BOOM)
//	hsub    :: num → num → num          strict mono; x - y (argument order)
//	hpair   :: ∀a. a → a → list[a]      strict poly; builds a composite
//	lz_if   :: ∀a. bool → a → a → a     lazy; like if
//	lz_and  :: bool → bool → bool       lazy; like &&
//	lz_pick :: ∀a. num → a → a → a      lazy; forces thunks per mode
//	ov#i    :: ... → str                overload family; returns "ov#i"
var (
	A_ = m.Var("a")

	SigTr     = ref.FunSig{Name: "tr", Params: []*m.Type{m.Num, A_}, Ret: A_, Impl: "tr"}
	SigBoom   = ref.FunSig{Name: "boom", Params: []*m.Type{A_}, Ret: A_, Impl: "boom"}
	SigHsub   = ref.FunSig{Name: "hsub", Params: []*m.Type{m.Num, m.Num}, Ret: m.Num, Impl: "hsub"}
	SigHpair  = ref.FunSig{Name: "hpair", Params: []*m.Type{A_, A_}, Ret: m.List(A_), Impl: "hpair"}
	SigLzIf   = ref.FunSig{Name: "lz_if", Params: []*m.Type{m.Bool, A_, A_}, Ret: A_, Impl: "lz_if", Lazy: true}
	SigLzAnd  = ref.FunSig{Name: "lz_and", Params: []*m.Type{m.Bool, m.Bool}, Ret: m.Bool, Impl: "lz_and", Lazy: true}
	SigLzPick = ref.FunSig{Name: "lz_pick", Params: []*m.Type{m.Num, A_, A_}, Ret: A_, Impl: "lz_pick", Lazy: true}

	// wider lazy / strict functions (a back end may special-case the arities of if / && / ||)
	SigLzSel4 = ref.FunSig{Name: "lz_sel4", Params: []*m.Type{m.Num, A_, A_, A_}, Ret: A_, Impl: "lz_sel4", Lazy: true}
	SigLzSel6 = ref.FunSig{Name: "lz_sel6", Params: []*m.Type{m.Num, A_, A_, A_, A_, A_}, Ret: A_, Impl: "lz_sel6", Lazy: true}
	SigLzOne  = ref.FunSig{Name: "lz_one", Params: []*m.Type{A_}, Ret: A_, Impl: "lz_one", Lazy: true}
	SigLzNone = ref.FunSig{Name: "lz_none", Params: []*m.Type{A_, m.Num}, Ret: m.Num, Impl: "lz_none", Lazy: true}
	// lz_try :: forall a. a -> a -> a   lazy; yields its first operand, or - when evaluating that
	// fails - its second (a host function that recovers from the failure of a deferred operand)
	SigLzTry = ref.FunSig{Name: "lz_try", Params: []*m.Type{A_, A_}, Ret: A_, Impl: "lz_try", Lazy: true}
	// the function behind the user-registered postfix operator !! :: num -> num (x + 1)
	SigPost = ref.FunSig{Name: "!!", Params: []*m.Type{m.Num}, Ret: m.Num, Impl: "hpost"}
	SigH4   = ref.FunSig{Name: "h4", Params: []*m.Type{m.Num, A_, m.Num, A_}, Ret: A_, Impl: "h4"}

	StdHarness = []ref.FunSig{SigTr, SigBoom, SigHsub, SigHpair, SigLzIf, SigLzAnd, SigLzPick, SigLzSel4, SigLzSel6, SigLzOne, SigLzNone, SigH4, SigLzTry}
)

// IsHarnessName: the name of a harness-registered function.
func IsHarnessName(n string) bool {
	if n == "ov" || n == "lz_last" || n == "!!" {
		return true
	}
	for _, f := range StdHarness {
		if f.Name == n {
			return true
		}
	}
	return false
}

// OvCode: the number an overload of the ov family with a numeric result returns.
func OvCode(marker string) float64 {
	h := 0
	for _, c := range marker {
		h = (h*31 + int(c)) % 9973
	}
	return float64(1000 + h)
}

// selIndex: which of n operands a lz_sel function forces for selector x.
func selIndex(x float64, n int) int {
	if x == x && x >= 0 && x < 1e9 {
		return int(x) % n
	}
	return 0
}

const BoomMarker = "BOOM(harness)"

func renderYae(v *val.Val) string {
	mv, probs := FromYaeVal(v, nil)
	if len(probs) > 0 || mv == nil {
		return "<malformed:" + strings.Join(probs, ";") + ">"
	}
	return mv.Render()
}

func traceLine(name string, args []string) string {
	return name + "(" + strings.Join(args, ", ") + ")"
}

var funNamesMu sync.Mutex

// MakeHarnessFun builds the yae function value for a signature. Type
// variables of the signature are created through types.TyVar.
func MakeHarnessFun(f ref.FunSig, tr *Tracer) *val.Val {
	c := NewTyCtx()
	ps := make([]*types.Type, len(f.Params))
	for i, p := range f.Params {
		ps[i] = c.To(p)
	}
	fty := types.Fun(f.Name, ps, c.To(f.Ret))
	var impl val.IFun
	base := f.Impl
	if i := strings.IndexByte(base, '#'); i >= 0 {
		base = base[:i]
	}
	// a lazy function must be handed thunks (0-ary function values); the harness's
	// lazy functions check that before the unchecked cast, so that a back end which
	// passes evaluated values fails cleanly instead of corrupting memory
	force := func(t *val.Val) *val.Val {
		if t == nil || t.Type == nil || t.Type.Kind != types.KFun || len(t.Type.Fun().Param) != 0 {
			panic("lazy function received an evaluated value instead of a thunk")
		}
		return t.Fun().Call()
	}
	switch base {
	case "tr":
		impl = func(args ...*val.Val) *val.Val {
			if h := tr.Hook; h != nil {
				h()
			}
			tr.Add(traceLine("tr", []string{renderYae(args[0]), renderYae(args[1])}))
			return args[1]
		}
	case "boom":
		impl = func(args ...*val.Val) *val.Val {
			tr.Add(traceLine("boom", []string{renderYae(args[0])}))
			panic(BoomMarker)
		}
	case "hsub":
		impl = func(args ...*val.Val) *val.Val {
			tr.Add(traceLine("hsub", []string{renderYae(args[0]), renderYae(args[1])}))
			return val.Num(args[0].Num().V - args[1].Num().V)
		}
	case "hpair":
		impl = func(args ...*val.Val) *val.Val {
			tr.Add(traceLine("hpair", []string{renderYae(args[0]), renderYae(args[1])}))
			l := val.List(types.List(args[0].Type).List(), 2).List()
			l.Set(0, args[0])
			l.Set(1, args[1])
			return l.Vl()
		}
	case "lz_if":
		impl = func(args ...*val.Val) *val.Val {
			tr.Add("lz_if")
			if force(args[0]).Bool().V {
				return force(args[1])
			}
			return force(args[2])
		}
	case "lz_and":
		impl = func(args ...*val.Val) *val.Val {
			tr.Add("lz_and")
			if force(args[0]).Bool().V {
				return force(args[1])
			}
			return val.False
		}
	case "lz_pick":
		impl = func(args ...*val.Val) *val.Val {
			tr.Add("lz_pick")
			switch int(force(args[0]).Num().V) {
			case 1:
				return force(args[2])
			case 2:
				force(args[1])
				return force(args[1])
			case 3:
				force(args[2])
				return force(args[1])
			case 4:
				force(args[1])
				return force(args[2])
			default:
				return force(args[1])
			}
		}
	case "lz_sel4", "lz_sel6":
		n := len(f.Params) - 1
		impl = func(args ...*val.Val) *val.Val {
			tr.Add(base)
			return force(args[1+selIndex(force(args[0]).Num().V, n)])
		}
	case "hpost":
		impl = func(args ...*val.Val) *val.Val {
			tr.Add(traceLine("hpost", []string{renderYae(args[0])}))
			return val.Num(args[0].Num().V + 1)
		}
	case "lz_try":
		impl = func(args ...*val.Val) *val.Val {
			tr.Add("lz_try")
			var v *val.Val
			failed := func() (failed bool) {
				defer func() {
					if r := recover(); r != nil {
						failed = true
					}
				}()
				v = force(args[0])
				return false
			}()
			if failed {
				return force(args[1])
			}
			return v
		}
	case "lz_last":
		impl = func(args ...*val.Val) *val.Val {
			tr.Add("lz_last")
			return force(args[len(args)-1])
		}
	case "lz_one":
		impl = func(args ...*val.Val) *val.Val {
			tr.Add("lz_one")
			return force(args[0])
		}
	case "lz_none":
		impl = func(args ...*val.Val) *val.Val {
			tr.Add("lz_none")
			return force(args[1])
		}
	case "h4":
		impl = func(args ...*val.Val) *val.Val {
			tr.Add(traceLine("h4", []string{renderYae(args[0]), renderYae(args[1]), renderYae(args[2]), renderYae(args[3])}))
			return args[1]
		}
	case "ov":
		marker := f.Impl
		retK := f.Ret.K
		impl = func(args ...*val.Val) *val.Val {
			xs := make([]string, len(args))
			for i, a := range args {
				xs[i] = renderYae(a)
			}
			tr.Add(traceLine(marker, xs))
			// the result reveals which registration ran, in the registration's own result type
			switch retK {
			case m.TNum:
				return val.Num(OvCode(marker))
			case m.TBool:
				return val.True
			}
			return val.Str(marker)
		}
	default:
		panic("unknown harness function " + f.Impl)
	}
	var fv *val.Val
	if f.Lazy {
		fv = val.LazyFun(fty, impl)
	} else {
		fv = val.Fun(fty, impl)
	}
	funNamesMu.Lock()
	funNames[fv] = f.Impl
	funNamesMu.Unlock()
	return fv
}

func refTrace(ev *ref.Evaluator, name string, args []*m.Val) {
	xs := make([]string, len(args))
	for i, a := range args {
		xs[i] = a.Render()
	}
	ev.Trace = append(ev.Trace, traceLine(name, xs))
}

// RefHarness: reference semantics of the harness functions.
func RefHarness(sigs []ref.FunSig) map[string]ref.HarnessFun {
	h := map[string]ref.HarnessFun{
		"tr": {Strict: func(ev *ref.Evaluator, ret *m.Type, a []*m.Val) (*m.Val, *ref.Failure) {
			refTrace(ev, "tr", a)
			return a[1], nil
		}},
		"boom": {Strict: func(ev *ref.Evaluator, ret *m.Type, a []*m.Val) (*m.Val, *ref.Failure) {
			refTrace(ev, "boom", a)
			return nil, &ref.Failure{Kind: "boom", Msg: BoomMarker}
		}},
		"hsub": {Strict: func(ev *ref.Evaluator, ret *m.Type, a []*m.Val) (*m.Val, *ref.Failure) {
			refTrace(ev, "hsub", a)
			return m.VNum(float64(a[0].N) - float64(a[1].N)), nil
		}},
		"hpair": {Strict: func(ev *ref.Evaluator, ret *m.Type, a []*m.Val) (*m.Val, *ref.Failure) {
			refTrace(ev, "hpair", a)
			return &m.Val{T: m.List(a[0].T), L: []*m.Val{a[0], a[1]}}, nil
		}},
		"lz_if": {Lazy: func(ev *ref.Evaluator, ret *m.Type, a []ref.Thunk) (*m.Val, *ref.Failure) {
			ev.Trace = append(ev.Trace, "lz_if")
			c, f := a[0]()
			if f != nil {
				return nil, f
			}
			if c.B {
				return a[1]()
			}
			return a[2]()
		}},
		"lz_and": {Lazy: func(ev *ref.Evaluator, ret *m.Type, a []ref.Thunk) (*m.Val, *ref.Failure) {
			ev.Trace = append(ev.Trace, "lz_and")
			c, f := a[0]()
			if f != nil {
				return nil, f
			}
			if c.B {
				return a[1]()
			}
			return m.VBool(false), nil
		}},
		"lz_pick": {Lazy: func(ev *ref.Evaluator, ret *m.Type, a []ref.Thunk) (*m.Val, *ref.Failure) {
			ev.Trace = append(ev.Trace, "lz_pick")
			md, f := a[0]()
			if f != nil {
				return nil, f
			}
			seq := [][]int{{1}, {2}, {1, 1}, {2, 1}, {1, 2}}
			mode := 0
			x := float64(md.N)
			if x == x && x >= 1 && x < 5 {
				mode = int(x)
			}
			var last *m.Val
			for _, i := range seq[mode] {
				v, f := a[i]()
				if f != nil {
					return nil, f
				}
				last = v
			}
			return last, nil
		}},
	}
	for _, name := range []string{"lz_sel4", "lz_sel6"} {
		name := name
		h[name] = ref.HarnessFun{Lazy: func(ev *ref.Evaluator, ret *m.Type, a []ref.Thunk) (*m.Val, *ref.Failure) {
			ev.Trace = append(ev.Trace, name)
			k, f := a[0]()
			if f != nil {
				return nil, f
			}
			return a[1+selIndex(float64(k.N), len(a)-1)]()
		}}
	}
	h["hpost"] = ref.HarnessFun{Strict: func(ev *ref.Evaluator, ret *m.Type, a []*m.Val) (*m.Val, *ref.Failure) {
		refTrace(ev, "hpost", a)
		return m.VNum(float64(a[0].N) + 1), nil
	}}
	h["lz_try"] = ref.HarnessFun{Lazy: func(ev *ref.Evaluator, ret *m.Type, a []ref.Thunk) (*m.Val, *ref.Failure) {
		ev.Trace = append(ev.Trace, "lz_try")
		v, f := a[0]()
		if f == nil {
			return v, nil
		}
		if f.Kind == "domain" {
			// "the language defines nothing here" is not a failure a host function can recover
			// from in the reference: the whole program is outside the specified domain
			return nil, f
		}
		return a[1]()
	}}
	h["lz_last"] = ref.HarnessFun{Lazy: func(ev *ref.Evaluator, ret *m.Type, a []ref.Thunk) (*m.Val, *ref.Failure) {
		ev.Trace = append(ev.Trace, "lz_last")
		return a[len(a)-1]()
	}}
	h["lz_one"] = ref.HarnessFun{Lazy: func(ev *ref.Evaluator, ret *m.Type, a []ref.Thunk) (*m.Val, *ref.Failure) {
		ev.Trace = append(ev.Trace, "lz_one")
		return a[0]()
	}}
	h["lz_none"] = ref.HarnessFun{Lazy: func(ev *ref.Evaluator, ret *m.Type, a []ref.Thunk) (*m.Val, *ref.Failure) {
		ev.Trace = append(ev.Trace, "lz_none")
		return a[1]()
	}}
	h["h4"] = ref.HarnessFun{Strict: func(ev *ref.Evaluator, ret *m.Type, a []*m.Val) (*m.Val, *ref.Failure) {
		refTrace(ev, "h4", a)
		return a[1], nil
	}}
	for _, s := range sigs {
		if strings.HasPrefix(s.Impl, "ov#") {
			marker := s.Impl
			retK := s.Ret.K
			h[marker] = ref.HarnessFun{Strict: func(ev *ref.Evaluator, ret *m.Type, a []*m.Val) (*m.Val, *ref.Failure) {
				refTrace(ev, marker, a)
				switch retK {
				case m.TNum:
					return m.VNum(OvCode(marker)), nil
				case m.TBool:
					return m.VBool(true), nil
				}
				return m.VStr(marker), nil
			}}
		}
	}
	return h
}

var _ = fmt.Sprint
