package model

import (
	"encoding/hex"
	"encoding/json"
	"fmt"
	"math"
	"sort"
	"strconv"
	"strings"
	"time"
	"unicode/utf8"
)

// F64 serialises every double exactly (NaN, ±Inf, -0 included).
type F64 float64

func (f F64) MarshalJSON() ([]byte, error) {
	return json.Marshal(FmtF(float64(f)))
}
func (f *F64) UnmarshalJSON(b []byte) error {
	var s string
	if err := json.Unmarshal(b, &s); err != nil {
		var x float64
		if err2 := json.Unmarshal(b, &x); err2 != nil {
			return err
		}
		*f = F64(x)
		return nil
	}
	x, err := strconv.ParseFloat(s, 64)
	if err != nil {
		return err
	}
	*f = F64(x)
	return nil
}

func FmtF(x float64) string {
	if x == 0 && math.Signbit(x) {
		return "-0"
	}
	return strconv.FormatFloat(x, 'g', -1, 64)
}

// TimeV is an instant plus the zone it is expressed in.
type TimeV struct {
	Unix int64  `json:"u"`
	Nano int    `json:"ns,omitempty"`
	Off  int    `json:"off,omitempty"`  // seconds east of UTC
	Zone string `json:"zone,omitempty"` // "" = UTC, "Local" = time.Local, else fixed zone name
}

func (t TimeV) Go() time.Time {
	tm := time.Unix(t.Unix, int64(t.Nano))
	switch t.Zone {
	case "":
		return tm.UTC()
	case "Local":
		return tm.In(time.Local)
	default:
		return tm.In(time.FixedZone(t.Zone, t.Off))
	}
}

// SameZone: two instants are held in zones that read and render alike. The checks run with
// TZ=UTC, so Local and UTC are one zone for every observable purpose.
func SameZone(a, b TimeV) bool {
	norm := func(z string) string {
		if z == "Local" {
			return ""
		}
		return z
	}
	return norm(a.Zone) == norm(b.Zone) && a.Off == b.Off
}

type Entry struct {
	K *Val `json:"k"`
	V *Val `json:"v"`
}

// Val mirrors a yae value. T is always the full type of the value.
// L: list elements, or object fields positionally in T.F order.
// M: map entries in insertion order (keys distinct under KeyOf).
// P: optional payload, nil = Nothing.
type Val struct {
	T  *Type   `json:"t"`
	N  F64     `json:"n,omitempty"`
	S  string  `json:"s,omitempty"`
	B  bool    `json:"b,omitempty"`
	Tm *TimeV  `json:"tm,omitempty"`
	L  []*Val  `json:"l,omitempty"`
	M  []Entry `json:"m,omitempty"`
	P  *Val    `json:"p,omitempty"`
	Fn string  `json:"fn,omitempty"` // function value: name of a harness function

	idx map[string]int // key index for large maps (built lazily, never serialised)
}

// A string that is not well-formed UTF-8 (a host may hand over any Go string) would be mangled by
// encoding/json; it is written as hex under "sx" instead, so that replay files are exact.
type plainVal Val

func (v *Val) MarshalJSON() ([]byte, error) {
	if utf8.ValidString(v.S) {
		return json.Marshal((*plainVal)(v))
	}
	return json.Marshal(struct {
		*plainVal
		S  string `json:"s,omitempty"`
		SX string `json:"sx"`
	}{plainVal: (*plainVal)(v), SX: hex.EncodeToString([]byte(v.S))})
}

func (v *Val) UnmarshalJSON(b []byte) error {
	aux := struct {
		*plainVal
		SX string `json:"sx"`
	}{plainVal: (*plainVal)(v)}
	if err := json.Unmarshal(b, &aux); err != nil {
		return err
	}
	if aux.SX != "" {
		raw, err := hex.DecodeString(aux.SX)
		if err != nil {
			return err
		}
		v.S = string(raw)
	}
	return nil
}

func VNum(x float64) *Val    { return &Val{T: Num, N: F64(x)} }
func VStr(s string) *Val     { return &Val{T: Str, S: s} }
func VBool(b bool) *Val      { return &Val{T: Bool, B: b} }
func VTimeUnix(u int64) *Val { return &Val{T: Time, Tm: &TimeV{Unix: u}} }
func VTime(t TimeV) *Val     { return &Val{T: Time, Tm: &t} }
func VList(el *Type, xs ...*Val) *Val {
	return &Val{T: List(el), L: xs}
}
func VMap(k, v *Type, es ...Entry) *Val { return &Val{T: Map(k, v), M: es} }
func VObj(t *Type, fields ...*Val) *Val { return &Val{T: t, L: fields} }
func VNothing(el *Type) *Val            { return &Val{T: Maybe(el)} }
func VJust(el *Type, p *Val) *Val       { return &Val{T: Maybe(el), P: p} }

func (v *Val) Field(name string) *Val {
	i := v.T.FieldIndex(name)
	if i < 0 {
		return nil
	}
	return v.L[i]
}

const Eps = 1e-9

// NumEq is the language's numeric equality: identical, or |a-b| < 1e-9 (NaN
// equals nothing; an infinity equals itself).
func NumEq(a, b float64) bool { return a == b || math.Abs(a-b) < Eps }

// ValEqual is the language's structural equality (== on values): numbers by
// tolerance, times by instant, objects by field name, maps by key set.
func ValEqual(a, b *Val) bool {
	if !Equal(a.T, b.T) {
		return false
	}
	switch a.T.K {
	case TNum:
		return NumEq(float64(a.N), float64(b.N))
	case TStr:
		return a.S == b.S
	case TBool:
		return a.B == b.B
	case TTime:
		return a.Tm.Go().Equal(b.Tm.Go())
	case TList:
		if len(a.L) != len(b.L) {
			return false
		}
		for i := range a.L {
			if !ValEqual(a.L[i], b.L[i]) {
				return false
			}
		}
		return true
	case TMap:
		if len(a.M) != len(b.M) {
			return false
		}
		for _, e := range a.M {
			w := b.MapGet(e.K)
			if w == nil || !ValEqual(e.V, w) {
				return false
			}
		}
		return true
	case TObj:
		for i, f := range a.T.F {
			if !ValEqual(a.L[i], b.Field(f.Name)) {
				return false
			}
		}
		return true
	case TMaybe:
		if a.P == nil || b.P == nil {
			return a.P == nil && b.P == nil
		}
		return ValEqual(a.P, b.P)
	case TFun:
		return a.Fn == b.Fn
	}
	return false
}

// Identical is exact identity: numbers bit for bit (NaN = NaN), everything
// else as ValEqual but recursively identical. Used to compare back ends and
// to compare with the reference evaluator.
func Identical(a, b *Val) bool {
	if !Equal(a.T, b.T) {
		return false
	}
	switch a.T.K {
	case TNum:
		return math.Float64bits(float64(a.N)) == math.Float64bits(float64(b.N)) ||
			(math.IsNaN(float64(a.N)) && math.IsNaN(float64(b.N)))
	case TStr:
		return a.S == b.S
	case TBool:
		return a.B == b.B
	case TTime:
		return a.Tm.Go().Equal(b.Tm.Go())
	case TList:
		if len(a.L) != len(b.L) {
			return false
		}
		for i := range a.L {
			if !Identical(a.L[i], b.L[i]) {
				return false
			}
		}
		return true
	case TMap:
		if len(a.M) != len(b.M) {
			return false
		}
		for _, e := range a.M {
			w := b.MapGetExact(e.K)
			if w == nil || !Identical(e.V, w) {
				return false
			}
		}
		return true
	case TObj:
		for i, f := range a.T.F {
			w := b.Field(f.Name)
			if w == nil || !Identical(a.L[i], w) {
				return false
			}
		}
		return true
	case TMaybe:
		if a.P == nil || b.P == nil {
			return a.P == nil && b.P == nil
		}
		return Identical(a.P, b.P)
	case TFun:
		return a.Fn == b.Fn
	}
	return false
}

// KeyOf is the reference notion of map-key identity: two keys are the same
// entry iff they are the same primitive value (numbers: identical doubles,
// with -0 = 0; times: same instant).
func KeyOf(k *Val) string {
	switch k.T.K {
	case TNum:
		x := float64(k.N)
		if x == 0 {
			x = 0
		}
		return "n" + strconv.FormatFloat(x, 'g', -1, 64)
	case TStr:
		return "s" + k.S
	case TBool:
		return "b" + strconv.FormatBool(k.B)
	case TTime:
		g := k.Tm.Go()
		return fmt.Sprintf("t%d.%09d", g.Unix(), g.Nanosecond())
	}
	return "?" + string(k.T.K)
}

func (v *Val) index() map[string]int {
	if v.idx == nil || len(v.idx) != len(v.M) {
		v.idx = make(map[string]int, len(v.M))
		for i, e := range v.M {
			v.idx[KeyOf(e.K)] = i
		}
	}
	return v.idx
}

func (v *Val) MapGetExact(k *Val) *Val {
	ks := KeyOf(k)
	if len(v.M) > 16 {
		if i, ok := v.index()[ks]; ok {
			return v.M[i].V
		}
		return nil
	}
	for _, e := range v.M {
		if KeyOf(e.K) == ks {
			return e.V
		}
	}
	return nil
}

// MapGet: lookup as the language defines it (key identity).
func (v *Val) MapGet(k *Val) *Val { return v.MapGetExact(k) }

// MapPut: a later duplicate key replaces the earlier entry's value (the
// entry keeps its place).
func (v *Val) MapPut(k, x *Val) {
	ks := KeyOf(k)
	if len(v.M) > 16 {
		ix := v.index()
		if i, ok := ix[ks]; ok {
			v.M[i].V = x
			return
		}
		v.M = append(v.M, Entry{k, x})
		ix[ks] = len(v.M) - 1
		return
	}
	for i, e := range v.M {
		if KeyOf(e.K) == ks {
			v.M[i].V = x
			return
		}
	}
	v.M = append(v.M, Entry{k, x})
}

// Render is the harness's own canonical rendering (not yae's): object fields
// and map entries sorted; used in messages and for canonical comparison.
func (v *Val) Render() string {
	if v == nil {
		return "<nil>"
	}
	switch v.T.K {
	case TNum:
		return FmtF(float64(v.N))
	case TStr:
		return strconv.Quote(v.S)
	case TBool:
		return strconv.FormatBool(v.B)
	case TTime:
		g := v.Tm.Go()
		return "@" + strconv.FormatInt(g.Unix(), 10) + "." + strconv.Itoa(g.Nanosecond()) // the instant; zones are not part of the value's identity
	case TList:
		xs := make([]string, len(v.L))
		for i, e := range v.L {
			xs[i] = e.Render()
		}
		return "[" + strings.Join(xs, ", ") + "]"
	case TMap:
		xs := make([]string, len(v.M))
		for i, e := range v.M {
			kr := e.K.Render()
			if e.K.T.K == TNum && float64(e.K.N) == 0 {
				kr = "0" // -0 and 0 are the same key
			}
			xs[i] = kr + ": " + e.V.Render()
		}
		sort.Strings(xs)
		return "[" + strings.Join(xs, ", ") + ":]"
	case TObj:
		xs := make([]string, len(v.L))
		for i, e := range v.L {
			xs[i] = v.T.F[i].Name + ": " + e.Render()
		}
		sort.Strings(xs)
		return "{" + strings.Join(xs, ", ") + "}"
	case TMaybe:
		if v.P == nil {
			return "Nothing"
		}
		return "Just(" + v.P.Render() + ")"
	case TFun:
		return "#fun:" + v.Fn
	}
	return "?"
}

// WellTyped checks the harness-side invariant of a model value (used to
// validate generators, not yae).
func (v *Val) WellTyped() error {
	switch v.T.K {
	case TList:
		for _, e := range v.L {
			if !Equal(e.T, v.T.El()) {
				return fmt.Errorf("list element %s in %s", e.T, v.T)
			}
			if err := e.WellTyped(); err != nil {
				return err
			}
		}
	case TMap:
		for _, e := range v.M {
			if !Equal(e.K.T, v.T.Key()) || !Equal(e.V.T, v.T.Val()) {
				return fmt.Errorf("map entry %s:%s in %s", e.K.T, e.V.T, v.T)
			}
			if err := e.V.WellTyped(); err != nil {
				return err
			}
		}
	case TObj:
		if len(v.L) != len(v.T.F) {
			return fmt.Errorf("object arity")
		}
		for i, e := range v.L {
			if !Equal(e.T, v.T.F[i].T) {
				return fmt.Errorf("field %s: %s in %s", v.T.F[i].Name, e.T, v.T)
			}
			if err := e.WellTyped(); err != nil {
				return err
			}
		}
	case TMaybe:
		if v.P != nil {
			if !Equal(v.P.T, v.T.El()) {
				return fmt.Errorf("payload %s in %s", v.P.T, v.T)
			}
			return v.P.WellTyped()
		}
	}
	return nil
}

// Permute returns the same value with every object occurrence (in types and
// in values, independently) written in another field order. All results are
// equal to v as far as the language is concerned.
func (v *Val) Permute(pick func(n int) []int) *Val {
	switch v.T.K {
	case TNum, TStr, TBool, TTime, TFun:
		return v
	case TList:
		n := &Val{T: v.T.Permute(pick)}
		for _, e := range v.L {
			n.L = append(n.L, e.Permute(pick))
		}
		return n
	case TMap:
		n := &Val{T: v.T.Permute(pick)}
		for _, e := range v.M {
			n.M = append(n.M, Entry{e.K, e.V.Permute(pick)})
		}
		return n
	case TMaybe:
		n := &Val{T: v.T.Permute(pick)}
		if v.P != nil {
			n.P = v.P.Permute(pick)
		}
		return n
	case TObj:
		p := pick(len(v.L))
		n := &Val{T: &Type{K: TObj}}
		for _, i := range p {
			f := v.L[i].Permute(pick)
			n.T.F = append(n.T.F, Field{v.T.F[i].Name, f.T})
			n.L = append(n.L, f)
		}
		return n
	}
	return v
}

// Conform rewrites v so that every component is written in the field order
// its container declares (what Go host data can express: one struct type per
// position). want is the declared type at this position (nil: v's own).
func (v *Val) Conform(want *Type) *Val {
	if want == nil {
		want = v.T
	}
	switch v.T.K {
	case TNum, TStr, TBool, TTime, TFun:
		return v
	case TList:
		n := &Val{T: want}
		for _, e := range v.L {
			n.L = append(n.L, e.Conform(want.El()))
		}
		return n
	case TMap:
		n := &Val{T: want}
		for _, e := range v.M {
			n.M = append(n.M, Entry{e.K, e.V.Conform(want.Val())})
		}
		return n
	case TMaybe:
		n := &Val{T: want}
		if v.P != nil {
			n.P = v.P.Conform(want.El())
		}
		return n
	case TObj:
		n := &Val{T: want}
		for _, f := range want.F {
			n.L = append(n.L, v.Field(f.Name).Conform(f.T))
		}
		return n
	}
	return v
}
