// Package model is the harness-side representation of yae types, values and
// expressions. It shares no code with /repo.
package model

import (
	"sort"
	"strings"
)

type TKind string

const (
	TNum   TKind = "num"
	TStr   TKind = "str"
	TBool  TKind = "bool"
	TTime  TKind = "time"
	TList  TKind = "list"
	TMap   TKind = "map"
	TObj   TKind = "obj"
	TMaybe TKind = "maybe"
	TFun   TKind = "fun"
	TTuple TKind = "tuple"
	TBot   TKind = "bot"
	TTop   TKind = "top"
	TVar   TKind = "var"
)

type Field struct {
	Name string `json:"n"`
	T    *Type  `json:"t"`
}

// Type: A holds the component types: list [el]; map [key,val]; maybe [el];
// tuple elems; fun params followed by the result. F holds object fields in
// the order they were written. N is a variable or function name.
type Type struct {
	K TKind   `json:"k"`
	A []*Type `json:"a,omitempty"`
	F []Field `json:"f,omitempty"`
	N string  `json:"n,omitempty"`
}

var (
	Num  = &Type{K: TNum}
	Str  = &Type{K: TStr}
	Bool = &Type{K: TBool}
	Time = &Type{K: TTime}
	Bot  = &Type{K: TBot}
	Top  = &Type{K: TTop}
)

func List(el *Type) *Type       { return &Type{K: TList, A: []*Type{el}} }
func Map(k, v *Type) *Type      { return &Type{K: TMap, A: []*Type{k, v}} }
func Maybe(el *Type) *Type      { return &Type{K: TMaybe, A: []*Type{el}} }
func Tuple(els ...*Type) *Type  { return &Type{K: TTuple, A: els} }
func Var(name string) *Type     { return &Type{K: TVar, N: name} }
func Obj(fields ...Field) *Type { return &Type{K: TObj, F: fields} }
func Fun(name string, params []*Type, ret *Type) *Type {
	a := make([]*Type, 0, len(params)+1)
	a = append(a, params...)
	a = append(a, ret)
	return &Type{K: TFun, A: a, N: name}
}

func (t *Type) El() *Type       { return t.A[0] }
func (t *Type) Key() *Type      { return t.A[0] }
func (t *Type) Val() *Type      { return t.A[1] }
func (t *Type) Params() []*Type { return t.A[:len(t.A)-1] }
func (t *Type) Ret() *Type      { return t.A[len(t.A)-1] }
func (t *Type) IsPrim() bool {
	return t.K == TNum || t.K == TStr || t.K == TBool || t.K == TTime
}
func (t *Type) FieldIndex(name string) int {
	for i, f := range t.F {
		if f.Name == name {
			return i
		}
	}
	return -1
}

// Equal is structural equality; object fields are compared by name, their
// order is irrelevant; variables by name.
func Equal(a, b *Type) bool {
	if a == nil || b == nil {
		return a == b
	}
	if a.K != b.K {
		return false
	}
	switch a.K {
	case TVar:
		return a.N == b.N
	case TObj:
		if len(a.F) != len(b.F) {
			return false
		}
		for _, fa := range a.F {
			i := b.FieldIndex(fa.Name)
			if i < 0 || !Equal(fa.T, b.F[i].T) {
				return false
			}
		}
		return true
	default:
		if len(a.A) != len(b.A) {
			return false
		}
		for i := range a.A {
			if !Equal(a.A[i], b.A[i]) {
				return false
			}
		}
		return true
	}
}

// String is canonical: object fields sorted by name.
func (t *Type) String() string {
	if t == nil {
		return "<nil>"
	}
	switch t.K {
	case TNum, TStr, TBool, TTime:
		return string(t.K)
	case TBot:
		return "⊥"
	case TTop:
		return "⊤"
	case TVar:
		return "'" + t.N
	case TList:
		return "list[" + t.A[0].String() + "]"
	case TMaybe:
		return "maybe[" + t.A[0].String() + "]"
	case TMap:
		return "map[" + t.A[0].String() + "," + t.A[1].String() + "]"
	case TTuple:
		xs := make([]string, len(t.A))
		for i, a := range t.A {
			xs[i] = a.String()
		}
		return "(" + strings.Join(xs, ",") + ")"
	case TFun:
		xs := make([]string, len(t.A)-1)
		for i, a := range t.Params() {
			xs[i] = a.String()
		}
		return t.N + "(" + strings.Join(xs, ",") + ")->" + t.Ret().String()
	case TObj:
		xs := make([]string, len(t.F))
		for i, f := range t.F {
			xs[i] = f.Name + ":" + f.T.String()
		}
		sort.Strings(xs)
		return "{" + strings.Join(xs, ",") + "}"
	}
	return "?"
}

// OrderString keeps the written field order (to tell two orders apart).
func (t *Type) OrderString() string {
	if t == nil {
		return "<nil>"
	}
	switch t.K {
	case TObj:
		xs := make([]string, len(t.F))
		for i, f := range t.F {
			xs[i] = f.Name + ":" + f.T.OrderString()
		}
		return "{" + strings.Join(xs, ",") + "}"
	case TList, TMaybe, TMap, TTuple, TFun:
		xs := make([]string, len(t.A))
		for i, a := range t.A {
			xs[i] = a.OrderString()
		}
		return string(t.K) + t.N + "[" + strings.Join(xs, ",") + "]"
	}
	return t.String()
}

func (t *Type) walk(f func(*Type)) {
	f(t)
	for _, a := range t.A {
		a.walk(f)
	}
	for _, fl := range t.F {
		fl.T.walk(f)
	}
}

func (t *Type) FreeVars() []string {
	seen := map[string]bool{}
	var out []string
	t.walk(func(x *Type) {
		if x.K == TVar && !seen[x.N] {
			seen[x.N] = true
			out = append(out, x.N)
		}
	})
	return out
}
func (t *Type) Ground() bool { return len(t.FreeVars()) == 0 }
func (t *Type) HasKind(k TKind) bool {
	found := false
	t.walk(func(x *Type) {
		if x.K == k {
			found = true
		}
	})
	return found
}
func (t *Type) Depth() int {
	d := 0
	for _, a := range t.A {
		if x := a.Depth(); x > d {
			d = x
		}
	}
	for _, f := range t.F {
		if x := f.T.Depth(); x > d {
			d = x
		}
	}
	return d + 1
}
func (t *Type) Occurs(v string) bool {
	for _, n := range t.FreeVars() {
		if n == v {
			return true
		}
	}
	return false
}

// Subst1 replaces variables by their image once (parallel substitution; the
// images are not substituted again).
func (t *Type) Subst1(s map[string]*Type) *Type {
	switch t.K {
	case TVar:
		if r, ok := s[t.N]; ok {
			return r
		}
		return t
	case TNum, TStr, TBool, TTime, TBot, TTop:
		return t
	}
	n := &Type{K: t.K, N: t.N}
	for _, a := range t.A {
		n.A = append(n.A, a.Subst1(s))
	}
	for _, f := range t.F {
		n.F = append(n.F, Field{f.Name, f.T.Subst1(s)})
	}
	return n
}

// Subst applies s to a fixed point (following chains). s MUST be acyclic
// (check with a cycle test first); a cyclic s is cut off at depth 8.
func (t *Type) Subst(s map[string]*Type) *Type {
	return t.subst(s, 0)
}
func (t *Type) subst(s map[string]*Type, depth int) *Type {
	if depth > 8 {
		return t
	}
	switch t.K {
	case TVar:
		if r, ok := s[t.N]; ok {
			if r.K == TVar && r.N == t.N {
				return t
			}
			return r.subst(s, depth+1)
		}
		return t
	case TNum, TStr, TBool, TTime, TBot, TTop:
		return t
	}
	n := &Type{K: t.K, N: t.N}
	for _, a := range t.A {
		n.A = append(n.A, a.subst(s, depth))
	}
	for _, f := range t.F {
		n.F = append(n.F, Field{f.Name, f.T.subst(s, depth)})
	}
	return n
}

func (t *Type) Clone() *Type { return t.Subst(nil) }

// Permute returns a copy with every object's fields reordered by pick,
// which maps (n) to a permutation of 0..n-1.
func (t *Type) Permute(pick func(n int) []int) *Type {
	switch t.K {
	case TNum, TStr, TBool, TTime, TBot, TTop, TVar:
		return t
	}
	n := &Type{K: t.K, N: t.N}
	for _, a := range t.A {
		n.A = append(n.A, a.Permute(pick))
	}
	if len(t.F) > 0 {
		p := pick(len(t.F))
		for _, i := range p {
			n.F = append(n.F, Field{t.F[i].Name, t.F[i].T.Permute(pick)})
		}
	}
	return n
}

// KeyVars: the variables that occur in a map-key position.
func (t *Type) KeyVars() map[string]bool {
	out := map[string]bool{}
	t.walk(func(x *Type) {
		if x.K == TMap && x.A[0].K == TVar {
			out[x.A[0].N] = true
		}
	})
	return out
}

// FixKeys replaces every map key that is not a primitive, a variable or ⊥ by str
// (types.Map refuses such keys at construction).
func (t *Type) FixKeys() *Type {
	switch t.K {
	case TNum, TStr, TBool, TTime, TBot, TTop, TVar:
		return t
	}
	n := &Type{K: t.K, N: t.N}
	for i, a := range t.A {
		a = a.FixKeys()
		if t.K == TMap && i == 0 && !(a.IsPrim() || a.K == TVar || a.K == TBot) {
			a = Str
		}
		n.A = append(n.A, a)
	}
	for _, f := range t.F {
		n.F = append(n.F, Field{f.Name, f.T.FixKeys()})
	}
	return n
}

// CanonVars renames variables to v0, v1, ... in order of first occurrence.
func (t *Type) CanonVars() *Type {
	names := map[string]string{}
	var ren func(x *Type) *Type
	ren = func(x *Type) *Type {
		switch x.K {
		case TVar:
			n, ok := names[x.N]
			if !ok {
				n = "v" + string(rune('0'+len(names)))
				names[x.N] = n
			}
			return Var(n)
		case TNum, TStr, TBool, TTime, TBot, TTop:
			return x
		}
		n := &Type{K: x.K, N: x.N}
		for _, a := range x.A {
			n.A = append(n.A, ren(a))
		}
		for _, f := range x.F {
			n.F = append(n.F, Field{f.Name, ren(f.T)})
		}
		return n
	}
	return ren(t)
}
