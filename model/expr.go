package model

import (
	"strings"
	"unicode/utf8"
)

// Expr is the harness's syntax tree. Surface kinds (prefix, postfix, infix,
// tern, mcall, group) are notation; core kinds are what desugaring leaves.
//
//	num str time bool   literal, Text = source text of the token
//	var                 Name
//	list                A = elements
//	map                 A = k0,v0,k1,v1,...
//	obj                 Keys = field names, A = values
//	member              A[0].Name
//	index               A[0][A[1]]
//	call                Name(A...)            plain call of a named function
//	dcall               A[0](A[1:]...)        callee is an arbitrary expression
//	mcall               A[0].Name(A[1:]...)   method-call notation
//	prefix postfix      Name = operator, A[0]
//	infix               Name = operator, A[0], A[1]
//	tern                A[0] ? A[1] : A[2]
//	group               ( A[0] )
type Expr struct {
	K    string   `json:"k"`
	Text string   `json:"text,omitempty"`
	Name string   `json:"name,omitempty"`
	Keys []string `json:"keys,omitempty"`
	A    []*Expr  `json:"a,omitempty"`

	// filled by Print (rune offsets into the printed source); not serialised
	Start int `json:"-"`
	End   int `json:"-"`
	Own   int `json:"-"` // rune offset of the node's own token (see C19)
	Line  int `json:"-"`
	Col   int `json:"-"`
}

func Lit(kind, text string) *Expr          { return &Expr{K: kind, Text: text} }
func V(name string) *Expr                  { return &Expr{K: "var", Name: name} }
func ListE(xs ...*Expr) *Expr              { return &Expr{K: "list", A: xs} }
func MapE(kvs ...*Expr) *Expr              { return &Expr{K: "map", A: kvs} }
func ObjE(keys []string, vs []*Expr) *Expr { return &Expr{K: "obj", Keys: keys, A: vs} }
func Member(o *Expr, f string) *Expr       { return &Expr{K: "member", Name: f, A: []*Expr{o}} }
func Index(o, i *Expr) *Expr               { return &Expr{K: "index", A: []*Expr{o, i}} }
func Call(fn string, args ...*Expr) *Expr  { return &Expr{K: "call", Name: fn, A: args} }
func DCall(callee *Expr, args ...*Expr) *Expr {
	return &Expr{K: "dcall", A: append([]*Expr{callee}, args...)}
}
func MCall(fn string, recv *Expr, args ...*Expr) *Expr {
	return &Expr{K: "mcall", Name: fn, A: append([]*Expr{recv}, args...)}
}
func Prefix(op string, x *Expr) *Expr   { return &Expr{K: "prefix", Name: op, A: []*Expr{x}} }
func Postfix(op string, x *Expr) *Expr  { return &Expr{K: "postfix", Name: op, A: []*Expr{x}} }
func Infix(op string, l, r *Expr) *Expr { return &Expr{K: "infix", Name: op, A: []*Expr{l, r}} }
func Tern(c, a, b *Expr) *Expr          { return &Expr{K: "tern", A: []*Expr{c, a, b}} }
func Group(x *Expr) *Expr               { return &Expr{K: "group", A: []*Expr{x}} }

func (e *Expr) IsOperatorForm() bool {
	switch e.K {
	case "prefix", "postfix", "infix", "tern":
		return true
	}
	return false
}

// Walk visits e and all descendants (pre-order).
func (e *Expr) Walk(f func(*Expr)) {
	f(e)
	for _, a := range e.A {
		a.Walk(f)
	}
}

func (e *Expr) Size() int {
	n := 0
	e.Walk(func(*Expr) { n++ })
	return n
}

func (e *Expr) Clone() *Expr {
	n := *e
	n.Keys = append([]string(nil), e.Keys...)
	n.A = make([]*Expr, len(e.A))
	for i, a := range e.A {
		n.A[i] = a.Clone()
	}
	return &n
}

// SameTree: structural equality ignoring positions.
func SameTree(a, b *Expr) bool {
	if a.K != b.K || a.Text != b.Text || a.Name != b.Name || len(a.A) != len(b.A) || len(a.Keys) != len(b.Keys) {
		return false
	}
	for i := range a.Keys {
		if a.Keys[i] != b.Keys[i] {
			return false
		}
	}
	for i := range a.A {
		if !SameTree(a.A[i], b.A[i]) {
			return false
		}
	}
	return true
}

// StripGroups removes every group node.
func (e *Expr) StripGroups() *Expr {
	if e.K == "group" {
		return e.A[0].StripGroups()
	}
	n := *e
	n.A = make([]*Expr, len(e.A))
	for i, a := range e.A {
		n.A[i] = a.StripGroups()
	}
	return &n
}

// String is a compact debug rendering (fully bracketed S-expression).
func (e *Expr) String() string {
	var b strings.Builder
	e.sexp(&b)
	return b.String()
}
func (e *Expr) sexp(b *strings.Builder) {
	switch e.K {
	case "num", "str", "time", "bool":
		b.WriteString(e.Text)
		return
	case "var":
		b.WriteString(e.Name)
		return
	}
	b.WriteString("(" + e.K)
	if e.Name != "" {
		b.WriteString(" " + e.Name)
	}
	for i, a := range e.A {
		b.WriteString(" ")
		if e.K == "obj" {
			b.WriteString(e.Keys[i] + ":")
		}
		a.sexp(b)
	}
	b.WriteString(")")
}

// ---------------------------------------------------------------- printer

type PrintOpt struct {
	Tight    bool // no blank after commas / colons inside literals and calls
	Newlines bool // use a line break (instead of a blank) after commas
	// TrailingComma: add a trailing comma in list/map/obj literals that have members
	TrailingComma bool
	// Pad is written before the first token (leading white space)
	Pad string
	// Trail is written after the last token (trailing white space)
	Trail string `json:"trail,omitempty"`
	// Blank replaces the single blank written around operators and after commas / colons
	// ("" = " "): a tab, a carriage return, several blanks
	Blank string `json:"blank,omitempty"`
}

type printer struct {
	b    []rune
	o    PrintOpt
	line int
	col  int
}

func (p *printer) emit(s string) (start int) {
	start = len(p.b)
	if p.o.Blank != "" && strings.TrimLeft(s, ",:") == " " {
		s = s[:len(s)-1] + p.o.Blank
	}
	for _, r := range s {
		p.b = append(p.b, r)
		if r == '\n' {
			p.line++
			p.col = 0
		} else {
			p.col++
		}
	}
	return start
}

func isWordOp(op string) bool {
	r, _ := utf8.DecodeRuneInString(op)
	return r == '_' || r >= 0x80 || (r >= 'a' && r <= 'z') || (r >= 'A' && r <= 'Z')
}

func (p *printer) sep() {
	if p.o.Newlines {
		p.emit(",\n")
	} else if p.o.Tight {
		p.emit(",")
	} else {
		p.emit(", ")
	}
}

func (p *printer) colon() {
	if p.o.Tight {
		p.emit(":")
	} else {
		p.emit(": ")
	}
}

func (p *printer) print(e *Expr) {
	e.Line, e.Col = p.line, p.col
	e.Start = len(p.b)
	e.Own = e.Start
	switch e.K {
	case "num", "str", "time", "bool":
		p.emit(e.Text)
	case "var":
		p.emit(e.Name)
	case "list":
		p.emit("[")
		for i, a := range e.A {
			if i > 0 {
				p.sep()
			}
			p.print(a)
		}
		if p.o.TrailingComma && len(e.A) > 0 {
			p.emit(",")
		}
		p.emit("]")
	case "map":
		p.emit("[")
		if len(e.A) == 0 {
			p.emit(":")
		}
		for i := 0; i+1 < len(e.A); i += 2 {
			if i > 0 {
				p.sep()
			}
			p.print(e.A[i])
			p.colon()
			p.print(e.A[i+1])
		}
		if p.o.TrailingComma && len(e.A) > 0 {
			p.emit(",")
		}
		p.emit("]")
	case "obj":
		p.emit("{")
		for i, a := range e.A {
			if i > 0 {
				p.sep()
			}
			p.emit(e.Keys[i])
			p.colon()
			p.print(a)
		}
		if p.o.TrailingComma && len(e.A) > 0 {
			p.emit(",")
		}
		p.emit("}")
	case "member":
		p.print(e.A[0])
		e.Own = p.emit(".")
		p.emit(e.Name)
	case "index":
		p.print(e.A[0])
		e.Own = p.emit("[")
		p.print(e.A[1])
		p.emit("]")
	case "call":
		p.emit(e.Name)
		e.Own = p.emit("(")
		for i, a := range e.A {
			if i > 0 {
				p.sep()
			}
			p.print(a)
		}
		p.emit(")")
	case "dcall":
		p.print(e.A[0])
		e.Own = p.emit("(")
		for i, a := range e.A[1:] {
			if i > 0 {
				p.sep()
			}
			p.print(a)
		}
		p.emit(")")
	case "mcall":
		p.print(e.A[0])
		p.emit(".")
		p.emit(e.Name)
		e.Own = p.emit("(")
		for i, a := range e.A[1:] {
			if i > 0 {
				p.sep()
			}
			p.print(a)
		}
		p.emit(")")
	case "prefix":
		e.Own = p.emit(e.Name)
		if isWordOp(e.Name) {
			p.emit(" ")
		}
		p.print(e.A[0])
	case "postfix":
		p.print(e.A[0])
		if isWordOp(e.Name) {
			p.emit(" ")
		}
		e.Own = p.emit(e.Name)
	case "infix":
		p.print(e.A[0])
		p.emit(" ")
		e.Own = p.emit(e.Name)
		p.emit(" ")
		p.print(e.A[1])
	case "tern":
		p.print(e.A[0])
		p.emit(" ")
		e.Own = p.emit("?")
		p.emit(" ")
		p.print(e.A[1])
		p.emit(" : ")
		p.print(e.A[2])
	case "group":
		p.emit("(")
		p.print(e.A[0])
		p.emit(")")
	default:
		panic("print: unknown kind " + e.K)
	}
	e.End = len(p.b)
}

// Print renders e as source text and records every node's span in e.
func Print(e *Expr, o PrintOpt) string {
	p := &printer{o: o}
	p.emit(o.Pad)
	p.print(e)
	p.emit(o.Trail)
	return string(p.b)
}

// Src renders with default options (no position side effects matter).
func (e *Expr) Src() string { return Print(e, PrintOpt{}) }
