#!/usr/bin/env bash
# MANIFEST.setup_cmd: offline warm build of the harness from files on disk.
set -e
cd "$(dirname "$(readlink -f "$0")")"
export GOFLAGS=-mod=mod GOPROXY=off GOSUMDB=off GOTOOLCHAIN=local CGO_ENABLED=1 TZ=UTC
mkdir -p bin work evidence replay
go build -tags verif ./...
go vet -tags verif ./props >/dev/null 2>&1 || true
go test -c -tags verif -o bin/props.test ./props
go test -c -tags verif -race -o bin/props.race.test ./props
rm -f bin/props.test bin/props.race.test
echo setup ok
