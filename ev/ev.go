// Package ev records what a check actually covered and writes it as
// evidence/<ID>.json (exploration shape of EVIDENCE.schema.json).
package ev

import (
	"encoding/binary"
	"encoding/json"
	"fmt"
	"hash/fnv"
	"os"
	"path/filepath"
	"sort"
	"sync"
	"time"
)

type Rec struct {
	mu         sync.Mutex
	ID         string
	Tier       string
	Seed       int64
	Rule       string
	Level      string
	Assume     []string
	start      time.Time
	evals      int
	classes    map[string]int
	distinct   map[uint64]struct{}
	samples    []json.RawMessage
	nontrivial int
	excluded   map[string]int
	violations int
	exhaustive map[string]bool
	extra      map[string]interface{}
	maxSamples int
}

func New(id, tier string, seed int64) *Rec {
	return &Rec{ID: id, Tier: tier, Seed: seed, Level: "exploration", start: time.Now(),
		classes: map[string]int{}, distinct: map[uint64]struct{}{}, excluded: map[string]int{},
		exhaustive: map[string]bool{}, extra: map[string]interface{}{}, maxSamples: 10}
}

func Hash(b []byte) uint64 {
	h := fnv.New64a()
	h.Write(b)
	return h.Sum64()
}

// Case counts one executed case. key is the canonical serialisation of the
// case (used for distinctness); nontrivial is the property's stated rule.
func (r *Rec) Case(key []byte, nontrivial bool, classes ...string) {
	r.mu.Lock()
	defer r.mu.Unlock()
	r.evals++
	for _, c := range classes {
		r.classes[c]++
	}
	if nontrivial {
		r.nontrivial++
		h := Hash(key)
		if _, ok := r.distinct[h]; !ok {
			r.distinct[h] = struct{}{}
			n := len(r.distinct)
			// deterministic sample: the first 3, then every power of four
			if len(r.samples) < r.maxSamples && (n <= 3 || n&(n-1) == 0 && n%3 == 1) {
				if len(key) <= 4096 && json.Valid(key) {
					r.samples = append(r.samples, json.RawMessage(append([]byte(nil), key...)))
				} else {
					s, _ := json.Marshal(truncate(string(key), 2000))
					r.samples = append(r.samples, s)
				}
			}
		}
	}
}

func truncate(s string, n int) string {
	if len(s) <= n {
		return s
	}
	return s[:n] + fmt.Sprintf("...(%d bytes)", len(s))
}

func (r *Rec) Class(c string, n int) {
	r.mu.Lock()
	r.classes[c] += n
	r.mu.Unlock()
}
func (r *Rec) Excluded(family string) {
	r.mu.Lock()
	r.excluded[family]++
	r.mu.Unlock()
}
func (r *Rec) Violation() {
	r.mu.Lock()
	r.violations++
	r.mu.Unlock()
}
func (r *Rec) Exhaustive(scope string, complete bool) {
	r.mu.Lock()
	r.exhaustive[scope] = complete
	r.mu.Unlock()
}
func (r *Rec) Extra(k string, v interface{}) {
	r.mu.Lock()
	r.extra[k] = v
	r.mu.Unlock()
}
func (r *Rec) Evals() int {
	r.mu.Lock()
	defer r.mu.Unlock()
	return r.evals
}

type part struct {
	ID         string                 `json:"property_id"`
	Tier       string                 `json:"tier"`
	Seed       int64                  `json:"seed"`
	Level      string                 `json:"level"`
	Rule       string                 `json:"rule"`
	Assume     []string               `json:"assumptions"`
	Evals      int                    `json:"evaluations"`
	Nontrivial int                    `json:"nontrivial_total"`
	Classes    map[string]int         `json:"classes"`
	Excluded   map[string]int         `json:"excluded_known"`
	Samples    []json.RawMessage      `json:"samples"`
	Violations int                    `json:"violations"`
	Exhaustive map[string]bool        `json:"exhaustive_scopes"`
	Extra      map[string]interface{} `json:"extra"`
	WallS      float64                `json:"wall_s"`
	HashFile   string                 `json:"hash_file"`
}

// WritePart writes this process's share; the driver merges parts into the
// final evidence file (so that shards can be unioned exactly).
func (r *Rec) WritePart(dir string, shard int) error {
	r.mu.Lock()
	defer r.mu.Unlock()
	if err := os.MkdirAll(dir, 0o755); err != nil {
		return err
	}
	hf := filepath.Join(dir, fmt.Sprintf("%s.%d.hashes", r.ID, shard))
	hs := make([]uint64, 0, len(r.distinct))
	for h := range r.distinct {
		hs = append(hs, h)
	}
	sort.Slice(hs, func(i, j int) bool { return hs[i] < hs[j] })
	buf := make([]byte, 8*len(hs))
	for i, h := range hs {
		binary.LittleEndian.PutUint64(buf[8*i:], h)
	}
	if err := os.WriteFile(hf, buf, 0o644); err != nil {
		return err
	}
	p := part{ID: r.ID, Tier: r.Tier, Seed: r.Seed, Level: r.Level, Rule: r.Rule, Assume: r.Assume,
		Evals: r.evals, Nontrivial: r.nontrivial, Classes: r.classes, Excluded: r.excluded,
		Samples: r.samples, Violations: r.violations, Exhaustive: r.exhaustive, Extra: r.extra,
		WallS: time.Since(r.start).Seconds(), HashFile: hf}
	b, err := json.MarshalIndent(p, "", " ")
	if err != nil {
		return err
	}
	return os.WriteFile(filepath.Join(dir, fmt.Sprintf("%s.%d.json", r.ID, shard)), b, 0o644)
}
