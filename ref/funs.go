package ref

import (
	m "verif/model"
)

// FunSig is one registered overload, in registration order.
type FunSig struct {
	Name   string    `json:"name"`
	Params []*m.Type `json:"params"`
	Ret    *m.Type   `json:"ret"`
	Lazy   bool      `json:"lazy,omitempty"`
	Impl   string    `json:"impl"` // key of the reference implementation
}

func (f FunSig) Type() *m.Type { return m.Fun(f.Name, f.Params, f.Ret) }
func (f FunSig) Mono() bool    { return f.Type().Ground() }

func sig(name, impl string, ret *m.Type, params ...*m.Type) FunSig {
	return FunSig{Name: name, Params: params, Ret: ret, Impl: impl}
}
func lazy(f FunSig) FunSig { f.Lazy = true; return f }

var (
	a  = m.Var("a")
	k  = m.Var("k")
	v  = m.Var("v")
	la = m.List(a)
	kv = m.Map(k, v)
)

// BuiltIns is the table of built-in functions written from the README's
// signature list (section "Functions and Operators"). The logical built-ins
// are registered under the operator spellings && || ! (the keyword operators
// and / or / not parse but have no built-in function). Order matters only
// among the polymorphic overloads of one name and arity; it follows the
// README's listing (maybe, list, map for get; list, map for len / == / !=).
var BuiltIns = []FunSig{
	sig("+", "ADD_NUM", m.Num, m.Num),
	sig("+", "ADD_NUM_NUM", m.Num, m.Num, m.Num),
	sig("+", "ADD_STR_STR", m.Str, m.Str, m.Str),
	sig("-", "SUB_NUM", m.Num, m.Num),
	sig("-", "SUB_NUM_NUM", m.Num, m.Num, m.Num),
	sig("-", "SUB_TIME_TIME", m.Num, m.Time, m.Time),
	sig("*", "MUL_NUM_NUM", m.Num, m.Num, m.Num),
	sig("/", "DIV_NUM_NUM", m.Num, m.Num, m.Num),
	sig("%", "MOD_NUM_NUM", m.Num, m.Num, m.Num),
	sig("^", "EXP_NUM_NUM", m.Num, m.Num, m.Num),

	sig("==", "EQ_BOOL_BOOL", m.Bool, m.Bool, m.Bool),
	sig("==", "EQ_NUM_NUM", m.Bool, m.Num, m.Num),
	sig("==", "EQ_STR_STR", m.Bool, m.Str, m.Str),
	sig("==", "EQ_TIME_TIME", m.Bool, m.Time, m.Time),
	sig("==", "EQ_LIST_LIST", m.Bool, la, la),
	sig("==", "EQ_MAP_MAP", m.Bool, kv, kv),
	sig("!=", "NE_BOOL_BOOL", m.Bool, m.Bool, m.Bool),
	sig("!=", "NE_NUM_NUM", m.Bool, m.Num, m.Num),
	sig("!=", "NE_STR_STR", m.Bool, m.Str, m.Str),
	sig("!=", "NE_TIME_TIME", m.Bool, m.Time, m.Time),
	sig("!=", "NE_LIST_LIST", m.Bool, la, la),
	sig("!=", "NE_MAP_MAP", m.Bool, kv, kv),

	sig("<", "LT_NUM_NUM", m.Bool, m.Num, m.Num),
	sig("<", "LT_TIME_TIME", m.Bool, m.Time, m.Time),
	sig("<=", "LE_NUM_NUM", m.Bool, m.Num, m.Num),
	sig("<=", "LE_TIME_TIME", m.Bool, m.Time, m.Time),
	sig(">", "GT_NUM_NUM", m.Bool, m.Num, m.Num),
	sig(">", "GT_TIME_TIME", m.Bool, m.Time, m.Time),
	sig(">=", "GE_NUM_NUM", m.Bool, m.Num, m.Num),
	sig(">=", "GE_TIME_TIME", m.Bool, m.Time, m.Time),

	sig("abs", "ABS_NUM", m.Num, m.Num),
	sig("round", "ROUND_NUM", m.Num, m.Num),
	sig("ceil", "CEIL_NUM", m.Num, m.Num),
	sig("floor", "FLOOR_NUM", m.Num, m.Num),
	sig("max", "MAX_NUM_NUM", m.Num, m.Num, m.Num),
	sig("max", "MAX_LIST", m.Num, m.List(m.Num)),
	sig("min", "MIN_NUM_NUM", m.Num, m.Num, m.Num),
	sig("min", "MIN_LIST", m.Num, m.List(m.Num)),

	sig("len", "LEN_LIST", m.Num, la),
	sig("len", "LEN_MAP", m.Num, kv),
	sig("len", "LEN_STR", m.Num, m.Str),

	lazy(sig("if", "IF_BOOL_ANY_ANY", a, m.Bool, a, a)),
	lazy(sig("&&", "LOGIC_AND_BOOL_BOOL", m.Bool, m.Bool, m.Bool)),
	lazy(sig("||", "LOGIC_OR_BOOL_BOOL", m.Bool, m.Bool, m.Bool)),
	sig("!", "LOGIC_NOT_BOOL", m.Bool, m.Bool),

	sig("match", "MATCH_STR_STR", m.Bool, m.Str, m.Str),
	sig("string", "STRING_ANY", m.Str, a),
	sig("isset", "ISSET_MAP_ANY", m.Bool, kv, k),

	sig("get", "GET_MAYBE", a, m.Maybe(a), a),
	sig("get", "GET_LIST_NUM_ANY", a, la, m.Num, a),
	sig("get", "GET_MAP_ANY_ANY", v, kv, k, v),

	sig("strtotime", "STRTOTIME_STR", m.Time, m.Str),

	sig("intersect", "INTERSECT_LIST_LIST", la, la, la),
	sig("union", "UNION_LIST_LIST", la, la, la),
	sig("diff", "DIFF_LIST_LIST", la, la, la),

	sig("print", "PRINT_ANY", a, a),
}

// Reserved words: identifiers that may not be used as variable names.
var Reserved = map[string]bool{}

func init() {
	for _, w := range []string{
		"byte", "int", "float", "double", "string", "bool", "boolean", "ch", "void",
		"type", "var", "def", "define", "let", "rec", "mut", "fun", "fn", "function",
		"record", "struct", "map", "list", "object", "class", "trait", "interface",
		"sealed", "extends",
		"prefix", "infixl", "infixr", "infixn",
		"for", "do", "while", "switch", "cast", "range", "match", "select",
		"break", "continue", "return", "try", "catch", "throw", "finally",
		"import", "as", "module", "package", "namespace",
		"assert", "debugger",
	} {
		Reserved[w] = true
	}
}
