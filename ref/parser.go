package ref

import (
	"fmt"

	m "verif/model"
)

// Reference parser: precedence climbing over the documented grammar
// (README: "syntax: parser/factory.go", "operator precedence and
// associativity: oper/factory.go"), written from the meaning of the operator
// declarations:
//
//   - an infix / postfix operator of power p may continue an expression whose
//     minimum power is q iff p > q (or p >= q when q is "inclusive");
//   - the right operand of a left- or non-associative operator of power p is
//     parsed with minimum p, of a right-associative one (and the last operand
//     of ?:) with minimum "p inclusive" — no arithmetic on powers;
//   - a prefix operator of power p takes an operand parsed with minimum p;
//   - call ( ), subscript [ ] and member . are postfix-like with the built-in
//     powers 12, 13, 13; ?: has power 2;
//   - a non-associative operator may not have itself as an unparenthesised
//     direct operand.
type Op struct {
	Name string  `json:"name"`
	BP   float64 `json:"bp"`
	Fix  string  `json:"fix"` // prefix | postfix | infixl | infixr | infixn
}

const (
	BPCond   = 2
	BPCall   = 12
	BPMember = 13
)

// BuiltInOps is the built-in operator table (oper/factory.go).
var BuiltInOps = []Op{
	{"+", 10, "prefix"}, {"-", 10, "prefix"},
	{"+", 7, "infixl"}, {"-", 7, "infixl"},
	{"*", 8, "infixl"}, {"/", 8, "infixl"}, {"%", 8, "infixl"},
	{"^", 9, "infixr"},
	{"<=", 6, "infixn"}, {"<", 6, "infixn"}, {">=", 6, "infixn"}, {">", 6, "infixn"},
	{"==", 5, "infixn"}, {"!=", 5, "infixn"},
	{"||", 3, "infixl"}, {"&&", 4, "infixl"},
	{"!", 10, "prefix"},
	{"or", 3, "infixl"}, {"and", 4, "infixl"}, {"not", 10, "prefix"},
}

func OpNames(ops []Op) []string {
	seen := map[string]bool{}
	var out []string
	for _, o := range ops {
		if !seen[o.Name] {
			seen[o.Name] = true
			out = append(out, o.Name)
		}
	}
	return out
}

type ParseError struct {
	Tok int
	Msg string
}

func (e *ParseError) Error() string { return fmt.Sprintf("syntax error at token %d: %s", e.Tok, e.Msg) }

type ParseInfo struct {
	UnspecMember bool // a member name that is not identifier-like (unspecified)
}

type minBP struct {
	p    float64
	incl bool
}

type rparser struct {
	toks   []Tok
	i      int
	prefix map[string]Op
	infix  map[string]Op // infix and postfix roles
	info   *ParseInfo
}

func (p *rparser) fail(format string, a ...interface{}) {
	panic(&ParseError{p.i, fmt.Sprintf(format, a...)})
}

func (p *rparser) peek() *Tok {
	if p.i < len(p.toks) {
		return &p.toks[p.i]
	}
	return nil
}
func (p *rparser) kind() string {
	if t := p.peek(); t != nil {
		return t.Kind
	}
	return "<eof>"
}
func (p *rparser) eat() *Tok {
	t := p.peek()
	if t == nil {
		p.fail("unexpected end of input")
	}
	p.i++
	return t
}
func (p *rparser) expect(kind string) *Tok {
	if p.kind() != kind {
		p.fail("expected %s, found %s", kind, p.kind())
	}
	return p.eat()
}

func span(e *m.Expr, first, last *Tok) *m.Expr {
	e.Start, e.End, e.Line, e.Col = first.Idx, last.IdxEnd, first.Line, first.Col
	return e
}
func spanE(e *m.Expr, first *m.Expr, lastEnd int) *m.Expr {
	e.Start, e.End, e.Line, e.Col = first.Start, lastEnd, first.Line, first.Col
	return e
}

// Parse: tokens (from the lexer) to a tree, or a *ParseError.
func Parse(toks []Tok, ops []Op) (e *m.Expr, info ParseInfo, err error) {
	p := &rparser{toks: toks, prefix: map[string]Op{}, infix: map[string]Op{}, info: &info}
	for _, o := range ops {
		if o.Fix == "prefix" {
			p.prefix[o.Name] = o
		} else {
			p.infix[o.Name] = o
		}
	}
	defer func() {
		if r := recover(); r != nil {
			if pe, ok := r.(*ParseError); ok {
				e, err = nil, pe
				return
			}
			panic(r)
		}
	}()
	e = p.expr(minBP{0, false})
	if p.peek() != nil {
		p.fail("unexpected %s after the expression", p.kind())
	}
	return e, info, nil
}

// lbp: the power with which the next token continues an expression (0: it does not).
func (p *rparser) lbp() (float64, string) {
	k := p.kind()
	switch k {
	case "?":
		return BPCond, "?"
	case ".":
		return BPMember, "."
	case "(":
		return BPCall, "("
	case "[":
		return BPMember, "["
	}
	if o, ok := p.infix[k]; ok {
		return o.BP, "op"
	}
	return 0, ""
}

func (p *rparser) expr(min minBP) *m.Expr {
	left := p.nud()
	for {
		bp, role := p.lbp()
		if role == "" || !(bp > min.p || (min.incl && bp == min.p)) {
			return left
		}
		left = p.led(role, left)
	}
}

func (p *rparser) nud() *m.Expr {
	t := p.eat()
	switch t.Kind {
	case "<sym>":
		return span(m.V(t.Lexeme), t, t)
	case "true", "false":
		return span(m.Lit("bool", t.Lexeme), t, t)
	case "<num>":
		if _, err := ParseNumLit(t.Lexeme); err != nil {
			p.i--
			p.fail("invalid number literal %s", t.Lexeme)
		}
		return span(m.Lit("num", t.Lexeme), t, t)
	case "<str>":
		if _, err := ParseStrLit(t.Lexeme); err != nil {
			p.i--
			p.fail("invalid string literal %s", t.Lexeme)
		}
		return span(m.Lit("str", t.Lexeme), t, t)
	case "<time>":
		return span(m.Lit("time", t.Lexeme), t, t)
	case "(":
		x := p.expr(minBP{0, false})
		rp := p.expect(")")
		return span(m.Group(x), t, rp)
	case "[":
		return p.listOrMap(t)
	case "{":
		return p.object(t)
	}
	if o, ok := p.prefix[t.Kind]; ok {
		x := p.expr(minBP{o.BP, false})
		e := m.Prefix(t.Lexeme, x)
		e.Start, e.End, e.Line, e.Col = t.Idx, x.End, t.Line, t.Col
		e.Own = t.Idx
		return e
	}
	p.i--
	p.fail("%s cannot start an expression", t.Kind)
	return nil
}

func (p *rparser) listOrMap(lb *Tok) *m.Expr {
	if p.kind() == ":" {
		p.eat()
		rb := p.expect("]")
		return span(m.MapE(), lb, rb)
	}
	var items []*m.Expr
	isMap := false
	for n := 0; ; n++ {
		if p.kind() == "]" {
			break
		}
		x := p.expr(minBP{0, false})
		if n == 0 {
			isMap = p.kind() == ":"
		}
		if isMap {
			p.expect(":")
			v := p.expr(minBP{0, false})
			items = append(items, x, v)
		} else {
			items = append(items, x)
		}
		if p.kind() != "," {
			break
		}
		p.eat()
	}
	rb := p.expect("]")
	if isMap {
		return span(m.MapE(items...), lb, rb)
	}
	return span(m.ListE(items...), lb, rb)
}

func (p *rparser) object(lb *Tok) *m.Expr {
	var keys []string
	var vals []*m.Expr
	for {
		if p.kind() == "}" {
			break
		}
		n := p.expect("<sym>")
		p.expect(":")
		v := p.expr(minBP{0, false})
		keys = append(keys, n.Lexeme)
		vals = append(vals, v)
		if p.kind() != "," {
			break
		}
		p.eat()
	}
	rb := p.expect("}")
	return span(m.ObjE(keys, vals), lb, rb)
}

func (p *rparser) args() ([]*m.Expr, *Tok) {
	var args []*m.Expr
	if p.kind() == ")" {
		return nil, p.eat()
	}
	for {
		args = append(args, p.expr(minBP{0, false}))
		if p.kind() != "," {
			break
		}
		p.eat()
	}
	return args, p.expect(")")
}

func isBinaryNamed(e *m.Expr, name string) bool { return e.K == "infix" && e.Name == name }

func (p *rparser) led(role string, left *m.Expr) *m.Expr {
	t := p.eat()
	switch role {
	case "?":
		mid := p.expr(minBP{0, false})
		p.expect(":")
		right := p.expr(minBP{BPCond, true})
		e := spanE(m.Tern(left, mid, right), left, right.End)
		e.Own = t.Idx
		return e
	case ".":
		name := p.eat()
		if !(name.Kind == "<sym>" || name.Kind == "true" || name.Kind == "false" || IsIdentLike(name.Lexeme)) {
			p.info.UnspecMember = true
		}
		if p.kind() == "(" {
			lp := p.eat()
			args, rp := p.args()
			e := spanE(m.MCall(name.Lexeme, left, args...), left, rp.IdxEnd)
			e.Own = lp.Idx
			return e
		}
		e := spanE(m.Member(left, name.Lexeme), left, name.IdxEnd)
		e.Own = t.Idx
		return e
	case "(":
		args, rp := p.args()
		var e *m.Expr
		if left.K == "var" {
			e = m.Call(left.Name, args...)
		} else {
			e = m.DCall(left, args...)
		}
		spanE(e, left, rp.IdxEnd)
		e.Own = t.Idx
		return e
	case "[":
		idx := p.expr(minBP{0, false})
		rb := p.expect("]")
		e := spanE(m.Index(left, idx), left, rb.IdxEnd)
		e.Own = t.Idx
		return e
	}
	o := p.infix[t.Kind]
	switch o.Fix {
	case "postfix":
		e := spanE(m.Postfix(t.Lexeme, left), left, t.IdxEnd)
		e.Own = t.Idx
		return e
	case "infixr":
		right := p.expr(minBP{o.BP, true})
		e := spanE(m.Infix(t.Lexeme, left, right), left, right.End)
		e.Own = t.Idx
		return e
	default:
		right := p.expr(minBP{o.BP, false})
		if o.Fix == "infixn" && (isBinaryNamed(left, t.Lexeme) || isBinaryNamed(right, t.Lexeme)) {
			p.fail("non-associative operator %s chained without parentheses", t.Lexeme)
		}
		e := spanE(m.Infix(t.Lexeme, left, right), left, right.End)
		e.Own = t.Idx
		return e
	}
}
