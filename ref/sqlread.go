package ref

import (
	"fmt"
	"strconv"
	"strings"
)

// Reader for SQL boolean expressions with standard precedence:
// comparison / IN / BETWEEN…AND / LIKE / IS NULL, then NOT, then AND, then OR.

type SQLTok struct {
	Kind string // ident | str | num | time | kw | sym
	Text string // raw text
	Val  string // decoded: identifier name, string content, unix seconds
}

type SQLNode struct {
	Op       string     // AND | OR | NOT | leaf
	Kids     []*SQLNode // AND / OR (flattened), NOT (one)
	Field    SQLTok     // leaf: left operand
	Cmp      string     // leaf: = <> > >= < <= IN BETWEEN LIKE ISNULL
	Operands []SQLTok   // leaf: right operands
}

func (n *SQLNode) String() string {
	switch n.Op {
	case "leaf":
		xs := make([]string, len(n.Operands))
		for i, o := range n.Operands {
			xs[i] = o.Text
		}
		return fmt.Sprintf("%s %s [%s]", n.Field.Text, n.Cmp, strings.Join(xs, " "))
	case "NOT":
		return "NOT(" + n.Kids[0].String() + ")"
	}
	xs := make([]string, len(n.Kids))
	for i, k := range n.Kids {
		xs[i] = k.String()
	}
	return n.Op + "(" + strings.Join(xs, "; ") + ")"
}

var sqlKeywords = map[string]bool{"AND": true, "OR": true, "NOT": true, "IN": true, "BETWEEN": true, "LIKE": true, "IS": true, "NULL": true}

func SQLLex(s string) ([]SQLTok, error) {
	var toks []SQLTok
	i := 0
	for i < len(s) {
		c := s[i]
		switch {
		case c == ' ':
			i++
		case c == '`':
			j := strings.IndexByte(s[i+1:], '`')
			if j < 0 {
				return nil, fmt.Errorf("unterminated identifier at %d", i)
			}
			toks = append(toks, SQLTok{Kind: "ident", Text: s[i : i+j+2], Val: s[i+1 : i+1+j]})
			i += j + 2
		case c == '"':
			j := i + 1
			for j < len(s) && s[j] != '"' {
				if s[j] == '\\' {
					j++
				}
				j++
			}
			if j >= len(s) {
				return nil, fmt.Errorf("unterminated string literal at %d", i)
			}
			raw := s[i : j+1]
			dec, err := strconv.Unquote(raw)
			if err != nil {
				return nil, fmt.Errorf("string literal %s does not decode: %v", raw, err)
			}
			toks = append(toks, SQLTok{Kind: "str", Text: raw, Val: dec})
			i = j + 1
		case c == '-' || (c >= '0' && c <= '9'):
			j := i + 1
			for j < len(s) && ((s[j] >= '0' && s[j] <= '9') || s[j] == '.') {
				j++
			}
			toks = append(toks, SQLTok{Kind: "num", Text: s[i:j], Val: s[i:j]})
			i = j
		case strings.HasPrefix(s[i:], "from_unixtime("):
			j := strings.IndexByte(s[i:], ')')
			if j < 0 {
				return nil, fmt.Errorf("unterminated from_unixtime at %d", i)
			}
			toks = append(toks, SQLTok{Kind: "time", Text: s[i : i+j+1], Val: s[i+len("from_unixtime(") : i+j]})
			i += j + 1
		case c == '(' || c == ')' || c == ',' || c == '=':
			toks = append(toks, SQLTok{Kind: "sym", Text: string(c)})
			i++
		case c == '<' || c == '>':
			j := i + 1
			if j < len(s) && (s[j] == '=' || (c == '<' && s[j] == '>')) {
				j++
			}
			toks = append(toks, SQLTok{Kind: "sym", Text: s[i:j]})
			i = j
		case c >= 'A' && c <= 'Z':
			j := i
			for j < len(s) && s[j] >= 'A' && s[j] <= 'Z' {
				j++
			}
			w := s[i:j]
			if !sqlKeywords[w] {
				return nil, fmt.Errorf("unexpected word %q at %d", w, i)
			}
			toks = append(toks, SQLTok{Kind: "kw", Text: w})
			i = j
		default:
			return nil, fmt.Errorf("unexpected character %q at %d (text outside any literal)", c, i)
		}
	}
	return toks, nil
}

type sqlParser struct {
	toks []SQLTok
	i    int
}

func (p *sqlParser) peek() SQLTok {
	if p.i < len(p.toks) {
		return p.toks[p.i]
	}
	return SQLTok{Kind: "eof"}
}
func (p *sqlParser) is(kind, text string) bool {
	t := p.peek()
	return t.Kind == kind && t.Text == text
}
func (p *sqlParser) eat() SQLTok { t := p.peek(); p.i++; return t }
func (p *sqlParser) expect(kind, text string) error {
	if !p.is(kind, text) {
		return fmt.Errorf("expected %s, found %q", text, p.peek().Text)
	}
	p.i++
	return nil
}

// ReadSQL parses a WHERE text into a tree with nested same-connective groups flattened.
func ReadSQL(s string) (*SQLNode, error) {
	toks, err := SQLLex(s)
	if err != nil {
		return nil, err
	}
	p := &sqlParser{toks: toks}
	n, err := p.or()
	if err != nil {
		return nil, err
	}
	if p.i != len(toks) {
		return nil, fmt.Errorf("unexpected %q after the expression", p.peek().Text)
	}
	return n, nil
}

func flat(op string, a, b *SQLNode) *SQLNode {
	n := &SQLNode{Op: op}
	for _, k := range []*SQLNode{a, b} {
		if k.Op == op {
			n.Kids = append(n.Kids, k.Kids...)
		} else {
			n.Kids = append(n.Kids, k)
		}
	}
	return n
}

func (p *sqlParser) or() (*SQLNode, error) {
	l, err := p.and()
	if err != nil {
		return nil, err
	}
	for p.is("kw", "OR") {
		p.eat()
		r, err := p.and()
		if err != nil {
			return nil, err
		}
		l = flat("OR", l, r)
	}
	return l, nil
}

func (p *sqlParser) and() (*SQLNode, error) {
	l, err := p.not()
	if err != nil {
		return nil, err
	}
	for p.is("kw", "AND") {
		p.eat()
		r, err := p.not()
		if err != nil {
			return nil, err
		}
		l = flat("AND", l, r)
	}
	return l, nil
}

func (p *sqlParser) not() (*SQLNode, error) {
	if p.is("kw", "NOT") {
		p.eat()
		k, err := p.not()
		if err != nil {
			return nil, err
		}
		return &SQLNode{Op: "NOT", Kids: []*SQLNode{k}}, nil
	}
	return p.pred()
}

func (p *sqlParser) operand() (SQLTok, error) {
	t := p.peek()
	switch t.Kind {
	case "ident", "str", "num", "time":
		p.eat()
		return t, nil
	}
	return t, fmt.Errorf("expected an operand, found %q", t.Text)
}

func (p *sqlParser) pred() (*SQLNode, error) {
	if p.is("sym", "(") {
		p.eat()
		n, err := p.or()
		if err != nil {
			return nil, err
		}
		if err := p.expect("sym", ")"); err != nil {
			return nil, err
		}
		return n, nil
	}
	f, err := p.operand()
	if err != nil {
		return nil, err
	}
	n := &SQLNode{Op: "leaf", Field: f}
	t := p.peek()
	switch {
	case t.Kind == "sym" && (t.Text == "=" || t.Text == "<>" || t.Text == ">" || t.Text == ">=" || t.Text == "<" || t.Text == "<="):
		p.eat()
		o, err := p.operand()
		if err != nil {
			return nil, err
		}
		n.Cmp, n.Operands = t.Text, []SQLTok{o}
	case t.Kind == "kw" && t.Text == "LIKE":
		p.eat()
		o, err := p.operand()
		if err != nil {
			return nil, err
		}
		n.Cmp, n.Operands = "LIKE", []SQLTok{o}
	case t.Kind == "kw" && t.Text == "IN":
		p.eat()
		if err := p.expect("sym", "("); err != nil {
			return nil, err
		}
		n.Cmp = "IN"
		for !p.is("sym", ")") {
			o, err := p.operand()
			if err != nil {
				return nil, err
			}
			n.Operands = append(n.Operands, o)
			if p.is("sym", ",") {
				p.eat()
			} else {
				break
			}
		}
		if err := p.expect("sym", ")"); err != nil {
			return nil, err
		}
	case t.Kind == "kw" && t.Text == "BETWEEN":
		p.eat()
		a, err := p.operand()
		if err != nil {
			return nil, err
		}
		if err := p.expect("kw", "AND"); err != nil {
			return nil, err
		}
		b, err := p.operand()
		if err != nil {
			return nil, err
		}
		n.Cmp, n.Operands = "BETWEEN", []SQLTok{a, b}
	case t.Kind == "kw" && t.Text == "IS":
		p.eat()
		if err := p.expect("kw", "NULL"); err != nil {
			return nil, err
		}
		n.Cmp = "ISNULL"
	default:
		return nil, fmt.Errorf("expected a condition after %s, found %q", f.Text, t.Text)
	}
	return n, nil
}
