package ref

import (
	"fmt"
	"math"
	"regexp"
	"sort"
	"strconv"
	"strings"
	"time"

	m "verif/model"
)

// Failure is a run-time stop. Kind:
//
//	index  list index outside the list
//	key    missing map key
//	mod0   modulo by zero
//	regex  invalid regular expression
//	boom   a harness function that fails on purpose
//	domain the reference does not define the operation for these operands
//	       (the case is outside the oracle's domain, not a failure of yae)
type Failure struct {
	Kind string
	Msg  string
}

func (f *Failure) Error() string { return f.Kind + ": " + f.Msg }

func fail(kind, format string, a ...interface{}) *Failure {
	return &Failure{kind, fmt.Sprintf(format, a...)}
}

type Thunk func() (*m.Val, *Failure)

// HarnessFun is the reference semantics of a harness-registered function.
// Strict functions receive values; lazy ones receive thunks.
type HarnessFun struct {
	Strict func(ev *Evaluator, ret *m.Type, args []*m.Val) (*m.Val, *Failure)
	Lazy   func(ev *Evaluator, ret *m.Type, args []Thunk) (*m.Val, *Failure)
}

type Evaluator struct {
	C       *Checker
	Env     map[string]*m.Val
	Harness map[string]HarnessFun
	Trace   []string // effect log: harness-function invocations in order
	Stdout  []string // lines written by print
	Steps   int
	// DomainNotes collects why a result is outside the oracle's domain
	Flags map[string]int
	// OnTerm, when set, is called after a variable, call, member or subscript
	// term has been evaluated (in completion order) — what debug mode records.
	OnTerm func(e *m.Expr, v *m.Val)
}

func NewEvaluator(c *Checker, env map[string]*m.Val, h map[string]HarnessFun) *Evaluator {
	return &Evaluator{C: c, Env: env, Harness: h, Flags: map[string]int{}}
}

func (ev *Evaluator) flag(s string) { ev.Flags[s]++ }

func (ev *Evaluator) Eval(e *m.Expr) (*m.Val, *Failure) {
	v, f := ev.eval(e)
	if f == nil && ev.OnTerm != nil {
		switch e.K {
		case "var", "call", "dcall", "member", "index":
			ev.OnTerm(e, v)
		}
	}
	return v, f
}

func (ev *Evaluator) eval(e *m.Expr) (*m.Val, *Failure) {
	ev.Steps++
	switch e.K {
	case "num":
		x, err := ParseNumLit(e.Text)
		if err != nil {
			return nil, fail("domain", "number literal %q: %v", e.Text, err)
		}
		return m.VNum(x), nil
	case "str":
		s, err := ParseStrLit(e.Text)
		if err != nil {
			return nil, fail("domain", "string literal %q: %v", e.Text, err)
		}
		return m.VStr(s), nil
	case "bool":
		return m.VBool(e.Text == "true"), nil
	case "time":
		u, okk := ParseAbsTime(e.Text[1 : len(e.Text)-1])
		if !okk {
			return nil, fail("domain", "time literal %q is not one of the absolute forms", e.Text)
		}
		return m.VTime(m.TimeV{Unix: u, Zone: "Local"}), nil
	case "var":
		v, okk := ev.Env[e.Name]
		if !okk {
			return nil, fail("domain", "unbound %s", e.Name)
		}
		return v, nil
	case "list":
		t := ev.C.Types[e]
		out := &m.Val{T: t}
		for _, x := range e.A {
			v, f := ev.Eval(x)
			if f != nil {
				return nil, f
			}
			out.L = append(out.L, v)
		}
		return out, nil
	case "map":
		t := ev.C.Types[e]
		out := &m.Val{T: t}
		for i := 0; i+1 < len(e.A); i += 2 {
			k, f := ev.Eval(e.A[i])
			if f != nil {
				return nil, f
			}
			v, f := ev.Eval(e.A[i+1])
			if f != nil {
				return nil, f
			}
			if out.MapGetExact(k) != nil {
				ev.flag("duplicate-map-key")
			}
			out.MapPut(k, v)
		}
		return out, nil
	case "obj":
		t := ev.C.Types[e]
		out := &m.Val{T: t}
		for _, x := range e.A {
			v, f := ev.Eval(x)
			if f != nil {
				return nil, f
			}
			out.L = append(out.L, v)
		}
		return out, nil
	case "member":
		o, f := ev.Eval(e.A[0])
		if f != nil {
			return nil, f
		}
		v := o.Field(e.Name) // by name, whatever the order of the run-time value
		if v == nil {
			return nil, fail("domain", "value %s has no field %s", o.Render(), e.Name)
		}
		return v, nil
	case "index":
		c, f := ev.Eval(e.A[0])
		if f != nil {
			return nil, f
		}
		i, f := ev.Eval(e.A[1])
		if f != nil {
			return nil, f
		}
		if c.T.K == m.TList {
			idx, okk := listIndex(float64(i.N), len(c.L))
			if !okk {
				return nil, fail("index", "index %s of a list of %d", m.FmtF(float64(i.N)), len(c.L))
			}
			return c.L[idx], nil
		}
		v := c.MapGet(i)
		if v == nil {
			return nil, fail("key", "missing key %s", i.Render())
		}
		return v, nil
	case "call":
		idx, okk := ev.C.Resolved[e]
		if !okk {
			return nil, fail("domain", "unresolved call %s", e.Name)
		}
		f := ev.C.Funs[idx]
		ret := ev.C.Types[e]
		if f.Lazy {
			ths := make([]Thunk, len(e.A))
			for i, x := range e.A {
				x := x
				ths[i] = func() (*m.Val, *Failure) { return ev.Eval(x) }
			}
			return ev.applyLazy(f, ret, ths)
		}
		args := make([]*m.Val, len(e.A))
		for i, x := range e.A {
			v, fl := ev.Eval(x)
			if fl != nil {
				return nil, fl
			}
			args[i] = v
		}
		return ev.applyStrict(f, ret, args)
	case "dcall":
		// callee first, then the arguments, left to right
		fv, fl := ev.Eval(e.A[0])
		if fl != nil {
			return nil, fl
		}
		args := make([]*m.Val, len(e.A)-1)
		for i, x := range e.A[1:] {
			v, fl := ev.Eval(x)
			if fl != nil {
				return nil, fl
			}
			args[i] = v
		}
		h, okk := ev.Harness[fv.Fn]
		if !okk || h.Strict == nil {
			return nil, fail("domain", "function value %q has no strict reference semantics", fv.Fn)
		}
		return h.Strict(ev, ev.C.Types[e], args)
	}
	return nil, fail("domain", "unknown node %s", e.K)
}

// listIndex: the index operand is truncated toward zero; defined iff
// 0 <= i < n.
func listIndex(x float64, n int) (int, bool) {
	if math.IsNaN(x) || math.IsInf(x, 0) {
		return 0, false
	}
	t := math.Trunc(x)
	if t < 0 || t >= float64(n) {
		return 0, false
	}
	return int(t), true
}

func (ev *Evaluator) applyLazy(f FunSig, ret *m.Type, a []Thunk) (*m.Val, *Failure) {
	switch f.Impl {
	case "IF_BOOL_ANY_ANY":
		c, fl := a[0]()
		if fl != nil {
			return nil, fl
		}
		if c.B {
			return a[1]()
		}
		return a[2]()
	case "LOGIC_AND_BOOL_BOOL":
		c, fl := a[0]()
		if fl != nil {
			return nil, fl
		}
		if !c.B {
			return m.VBool(false), nil
		}
		return a[1]()
	case "LOGIC_OR_BOOL_BOOL":
		c, fl := a[0]()
		if fl != nil {
			return nil, fl
		}
		if c.B {
			return m.VBool(true), nil
		}
		return a[1]()
	}
	if h, okk := ev.Harness[f.Impl]; okk && h.Lazy != nil {
		return h.Lazy(ev, ret, a)
	}
	return nil, fail("domain", "no lazy reference semantics for %s", f.Impl)
}

func num(x float64) (*m.Val, *Failure)  { return m.VNum(x), nil }
func boolean(b bool) (*m.Val, *Failure) { return m.VBool(b), nil }

// Round: half away from zero.
func Round(x float64) float64 {
	if math.IsNaN(x) || math.IsInf(x, 0) {
		return x
	}
	t := math.Trunc(x)
	if math.Abs(x-t) >= 0.5 {
		return t + math.Copysign(1, x)
	}
	return t
}

// Mod: remainder of the operands truncated toward zero (sign of the
// dividend; an integer, so a zero result is +0), exact for every finite
// double. Undefined (mod0) when the truncated divisor is zero. nonFinite
// reports a NaN / infinite operand, for which the language defines nothing.
func Mod(a, b float64) (r float64, f *Failure, nonFinite bool) {
	if math.IsNaN(a) || math.IsNaN(b) || math.IsInf(a, 0) || math.IsInf(b, 0) {
		return 0, nil, true
	}
	ta, tb := math.Trunc(a), math.Trunc(b)
	if tb == 0 {
		return 0, fail("mod0", "modulo by zero"), false
	}
	r = math.Mod(ta, tb)
	if r == 0 {
		r = 0
	}
	return r, nil, false
}

func (ev *Evaluator) applyStrict(f FunSig, ret *m.Type, a []*m.Val) (*m.Val, *Failure) {
	n := func(i int) float64 { return float64(a[i].N) }
	switch f.Impl {
	case "ADD_NUM":
		return a[0], nil
	case "ADD_NUM_NUM":
		return num(n(0) + n(1))
	case "ADD_STR_STR":
		return m.VStr(a[0].S + a[1].S), nil
	case "SUB_NUM":
		return num(-n(0))
	case "SUB_NUM_NUM":
		return num(n(0) - n(1))
	case "SUB_TIME_TIME":
		// what a difference of more than about 292 years is (Go's Duration saturates there) is
		// not specified anywhere: such programs are compared between back ends only
		if du := a[0].Tm.Unix - a[1].Tm.Unix; du > 9223372035 || du < -9223372035 {
			ev.flag("time-difference-beyond-duration-range")
		}
		return num(a[0].Tm.Go().Sub(a[1].Tm.Go()).Seconds())
	case "MUL_NUM_NUM":
		return num(n(0) * n(1))
	case "DIV_NUM_NUM":
		return num(n(0) / n(1))
	case "MOD_NUM_NUM":
		r, fl, nonFinite := Mod(n(0), n(1))
		if nonFinite {
			return nil, fail("domain", "modulo with a non-finite operand")
		}
		if fl != nil {
			return nil, fl
		}
		return num(r)
	case "EXP_NUM_NUM":
		return num(math.Pow(n(0), n(1)))
	case "EQ_BOOL_BOOL":
		return boolean(a[0].B == a[1].B)
	case "NE_BOOL_BOOL":
		return boolean(a[0].B != a[1].B)
	case "EQ_NUM_NUM":
		return boolean(m.NumEq(n(0), n(1)))
	case "NE_NUM_NUM":
		return boolean(!m.NumEq(n(0), n(1)))
	case "EQ_STR_STR":
		return boolean(a[0].S == a[1].S)
	case "NE_STR_STR":
		return boolean(a[0].S != a[1].S)
	case "EQ_TIME_TIME":
		return boolean(a[0].Tm.Go().Equal(a[1].Tm.Go()))
	case "NE_TIME_TIME":
		return boolean(!a[0].Tm.Go().Equal(a[1].Tm.Go()))
	case "EQ_LIST_LIST", "EQ_MAP_MAP":
		ev.noteTolerance(a[0], a[1])
		return boolean(m.ValEqual(a[0], a[1]))
	case "NE_LIST_LIST", "NE_MAP_MAP":
		ev.noteTolerance(a[0], a[1])
		return boolean(!m.ValEqual(a[0], a[1]))
	case "LT_NUM_NUM":
		return boolean(n(0) < n(1) && !m.NumEq(n(0), n(1)))
	case "LE_NUM_NUM":
		return boolean(n(0) <= n(1) || m.NumEq(n(0), n(1)))
	case "GT_NUM_NUM":
		return boolean(n(0) > n(1) && !m.NumEq(n(0), n(1)))
	case "GE_NUM_NUM":
		return boolean(n(0) >= n(1) || m.NumEq(n(0), n(1)))
	case "LT_TIME_TIME":
		return boolean(a[0].Tm.Go().Before(a[1].Tm.Go()))
	case "LE_TIME_TIME":
		return boolean(!a[0].Tm.Go().After(a[1].Tm.Go()))
	case "GT_TIME_TIME":
		return boolean(a[0].Tm.Go().After(a[1].Tm.Go()))
	case "GE_TIME_TIME":
		return boolean(!a[0].Tm.Go().Before(a[1].Tm.Go()))
	case "ABS_NUM":
		return num(math.Abs(n(0)))
	case "ROUND_NUM":
		return num(Round(n(0)))
	case "CEIL_NUM":
		return num(math.Ceil(n(0)))
	case "FLOOR_NUM":
		return num(math.Floor(n(0)))
	case "MAX_NUM_NUM":
		return num(math.Max(n(0), n(1)))
	case "MIN_NUM_NUM":
		return num(math.Min(n(0), n(1)))
	case "MAX_LIST", "MIN_LIST":
		if len(a[0].L) == 0 {
			return num(0) // characterised: the pinned behaviour for an empty list
		}
		r := float64(a[0].L[0].N)
		for _, x := range a[0].L[1:] {
			if f.Impl == "MAX_LIST" {
				r = math.Max(r, float64(x.N))
			} else {
				r = math.Min(r, float64(x.N))
			}
		}
		return num(r)
	case "LEN_LIST":
		return num(float64(len(a[0].L)))
	case "LEN_MAP":
		return num(float64(len(a[0].M)))
	case "LEN_STR":
		c := 0
		for range a[0].S {
			c++
		}
		return num(float64(c))
	case "LOGIC_NOT_BOOL":
		return boolean(!a[0].B)
	case "MATCH_STR_STR":
		re, err := regexp.Compile(a[0].S)
		if err != nil {
			return nil, fail("regex", "%v", err)
		}
		return boolean(re.MatchString(a[1].S))
	case "STRING_ANY":
		return m.VStr(ev.StringOf(a[0])), nil
	case "ISSET_MAP_ANY":
		return boolean(a[0].MapGet(a[1]) != nil)
	case "GET_MAYBE":
		if a[0].P != nil {
			return a[0].P, nil
		}
		return a[1], nil
	case "GET_LIST_NUM_ANY":
		if i, okk := listIndex(n(1), len(a[0].L)); okk {
			return a[0].L[i], nil
		}
		return a[2], nil
	case "GET_MAP_ANY_ANY":
		if v := a[0].MapGet(a[1]); v != nil {
			return v, nil
		}
		return a[2], nil
	case "STRTOTIME_STR":
		u, okk := ParseAbsTime(a[0].S)
		if !okk {
			return nil, fail("domain", "strtotime(%q): not one of the absolute forms", a[0].S)
		}
		return m.VTime(m.TimeV{Unix: u, Zone: "Local"}), nil
	case "UNION_LIST_LIST", "INTERSECT_LIST_LIST", "DIFF_LIST_LIST":
		all := append(append([]*m.Val{}, a[0].L...), a[1].L...)
		ev.noteTolerance(&m.Val{T: a[0].T, L: all}, nil)
		// which of two equal elements represents them in the result is not
		// defined (and not observable by ==): flag operands where it matters
		for i := range all {
			for j := i + 1; j < len(all); j++ {
				if m.ValEqual(all[i], all[j]) && !m.Identical(all[i], all[j]) {
					ev.flag("set-op-representative")
				}
			}
		}
		xs, ys := distinct(a[0].L), distinct(a[1].L)
		out := &m.Val{T: a[0].T}
		switch f.Impl {
		case "UNION_LIST_LIST":
			out.L = append(out.L, xs...)
			for _, y := range ys {
				if !contains(xs, y) {
					out.L = append(out.L, y)
				}
			}
		case "INTERSECT_LIST_LIST":
			for _, x := range xs {
				if contains(ys, x) {
					out.L = append(out.L, x)
				}
			}
		default:
			for _, x := range xs {
				if !contains(ys, x) {
					out.L = append(out.L, x)
				}
			}
		}
		return out, nil
	case "PRINT_ANY":
		ev.Stdout = append(ev.Stdout, RenderVal(a[0]))
		return a[0], nil
	}
	if h, okk := ev.Harness[f.Impl]; okk && h.Strict != nil {
		return h.Strict(ev, ret, a)
	}
	return nil, fail("domain", "no reference semantics for %s", f.Impl)
}

func distinct(xs []*m.Val) []*m.Val {
	var out []*m.Val
	for _, x := range xs {
		if !contains(out, x) {
			out = append(out, x)
		}
	}
	return out
}
func contains(xs []*m.Val, y *m.Val) bool {
	for _, x := range xs {
		if m.ValEqual(x, y) {
			return true
		}
	}
	return false
}

// noteTolerance flags operands in which two numbers are equal under the
// tolerance without being the same number (the property restricts itself to
// numbers that are identical or clearly different), or two equal instants in
// different zones.
func (ev *Evaluator) noteTolerance(a, b *m.Val) {
	var nums []float64
	var times []*m.TimeV
	var walk func(v *m.Val)
	walk = func(v *m.Val) {
		if v == nil {
			return
		}
		switch v.T.K {
		case m.TNum:
			nums = append(nums, float64(v.N))
		case m.TTime:
			times = append(times, v.Tm)
		}
		for _, x := range v.L {
			walk(x)
		}
		for _, e := range v.M {
			walk(e.K)
			walk(e.V)
		}
		walk(v.P)
	}
	walk(a)
	walk(b)
	sort.Float64s(nums)
	for i := 1; i < len(nums); i++ {
		x, y := nums[i-1], nums[i]
		if x != y && math.Abs(x-y) < 10*m.Eps {
			ev.flag("tolerance-edge")
		}
		if math.IsNaN(x) || math.IsNaN(y) {
			ev.flag("nan-in-structural-eq")
		}
	}
	if len(nums) == 1 && math.IsNaN(nums[0]) {
		ev.flag("nan-in-structural-eq")
	}
	for i := range times {
		for j := i + 1; j < len(times); j++ {
			if times[i].Go().Equal(times[j].Go()) && !m.SameZone(*times[i], *times[j]) {
				ev.flag("equal-instants-different-zones")
			}
		}
	}
}

// ---------------------------------------------------------------- renderings (characterised)

const two63 = 9223372036854775808.0

// RenderNum: integers (below 2^63 in magnitude) without point or exponent,
// all other numbers in shortest positional decimal.
func RenderNum(x float64) string {
	if x == math.Trunc(x) && math.Abs(x) < two63 {
		return strconv.FormatInt(int64(x), 10)
	}
	return strconv.FormatFloat(x, 'f', -1, 64)
}

const goTimeLayout = "2006-01-02 15:04:05.999999999 -0700 MST"

func renderTime(t *m.TimeV) string { return t.Go().Format(goTimeLayout) }

// KeyText is the text a map key is shown as.
func KeyText(k *m.Val) string {
	switch k.T.K {
	case m.TNum:
		return RenderNum(float64(k.N))
	case m.TStr:
		return strconv.Quote(k.S)
	case m.TBool:
		return strconv.FormatBool(k.B)
	case m.TTime:
		return strconv.Quote(renderTime(k.Tm))
	}
	return "?"
}

// StringOf is what string(x) yields (characterised from the pinned code;
// map entries in ascending order of their key text).
func (ev *Evaluator) StringOf(v *m.Val) string { return StringOf(v) }

func StringOf(v *m.Val) string {
	switch v.T.K {
	case m.TNum:
		return RenderNum(float64(v.N))
	case m.TStr:
		return v.S
	case m.TBool:
		return strconv.FormatBool(v.B)
	case m.TTime:
		return renderTime(v.Tm)
	case m.TList:
		xs := make([]string, len(v.L))
		for i, x := range v.L {
			xs[i] = StringOf(x)
		}
		return "[" + strings.Join(xs, ", ") + "]"
	case m.TMap:
		if len(v.M) == 0 {
			return "[:]"
		}
		type kv struct{ k, s string }
		xs := make([]kv, len(v.M))
		for i, e := range v.M {
			xs[i] = kv{KeyText(e.K), KeyText(e.K) + ": " + StringOf(e.V)}
		}
		sort.SliceStable(xs, func(i, j int) bool { return xs[i].k < xs[j].k })
		ss := make([]string, len(xs))
		for i := range xs {
			ss[i] = xs[i].s
		}
		return "[" + strings.Join(ss, ", ") + "]"
	case m.TObj:
		idx := make([]int, len(v.L))
		for i := range idx {
			idx[i] = i
		}
		sort.SliceStable(idx, func(i, j int) bool { return v.T.F[idx[i]].Name < v.T.F[idx[j]].Name })
		xs := make([]string, len(v.L))
		for j, i := range idx {
			xs[j] = v.T.F[i].Name + ": " + StringOf(v.L[i])
		}
		return "{" + strings.Join(xs, ", ") + "}"
	case m.TMaybe:
		if v.P == nil {
			return "Nothing()"
		}
		return "Just(" + StringOf(v.P) + ")"
	case m.TFun:
		return "#fun"
	}
	return "?"
}

// RenderVal is the canonical rendering of a value (what print writes and
// what (*val.Val).String returns): strings quoted, map entries sorted by key
// text, object fields sorted by name.
func RenderVal(v *m.Val) string {
	switch v.T.K {
	case m.TNum:
		return RenderNum(float64(v.N))
	case m.TStr:
		return strconv.Quote(v.S)
	case m.TBool:
		return strconv.FormatBool(v.B)
	case m.TTime:
		return renderTime(v.Tm)
	case m.TList:
		xs := make([]string, len(v.L))
		for i, x := range v.L {
			xs[i] = RenderVal(x)
		}
		return "[" + strings.Join(xs, ", ") + "]"
	case m.TMap:
		if len(v.M) == 0 {
			return "[:]"
		}
		type kv struct{ k, s string }
		xs := make([]kv, len(v.M))
		for i, e := range v.M {
			xs[i] = kv{KeyText(e.K), KeyText(e.K) + ": " + RenderVal(e.V)}
		}
		sort.SliceStable(xs, func(i, j int) bool { return xs[i].k < xs[j].k })
		ss := make([]string, len(xs))
		for i := range xs {
			ss[i] = xs[i].s
		}
		return "[" + strings.Join(ss, ", ") + "]"
	case m.TObj:
		idx := make([]int, len(v.L))
		for i := range idx {
			idx[i] = i
		}
		sort.SliceStable(idx, func(i, j int) bool { return v.T.F[idx[i]].Name < v.T.F[idx[j]].Name })
		xs := make([]string, len(v.L))
		for j, i := range idx {
			xs[j] = v.T.F[i].Name + ": " + RenderVal(v.L[i])
		}
		return "{" + strings.Join(xs, ", ") + "}"
	case m.TMaybe:
		if v.P == nil {
			return "Nothing#" + YaeTypeString(v.T.El()) + "()"
		}
		return "Just#" + YaeTypeString(v.T.El()) + "(" + RenderVal(v.P) + ")"
	case m.TFun:
		return "#fun"
	}
	return "?"
}

// YaeTypeString renders a type the way yae's type printer does (object
// fields in sorted order), needed only inside optional renderings.
func YaeTypeString(t *m.Type) string {
	switch t.K {
	case m.TNum, m.TStr, m.TBool, m.TTime:
		return string(t.K)
	case m.TBot:
		return "⊥"
	case m.TList:
		return "list[" + YaeTypeString(t.El()) + "]"
	case m.TMap:
		return "map[" + YaeTypeString(t.Key()) + ", " + YaeTypeString(t.Val()) + "]"
	case m.TMaybe:
		return "maybe[" + YaeTypeString(t.El()) + "]"
	case m.TObj:
		xs := make([]string, len(t.F))
		for i, f := range t.F {
			xs[i] = f.Name + ": " + YaeTypeString(f.T)
		}
		sort.Strings(xs) // canonical: independent of the written field order
		return "{" + strings.Join(xs, ", ") + "}"
	}
	return t.String()
}

// ---------------------------------------------------------------- literals

// ParseNumLit reads the six number forms: decimal integer, fraction,
// exponent, 0x hex, 0b binary, 0o octal (integers converted exactly when they
// fit 63 bits, as a whole double otherwise).
func ParseNumLit(s string) (float64, error) {
	if len(s) > 2 && s[0] == '0' && (s[1] == 'x' || s[1] == 'b' || s[1] == 'o') {
		base := map[byte]int{'x': 16, 'b': 2, 'o': 8}[s[1]]
		var acc uint64
		for _, c := range s[2:] {
			var d int
			switch {
			case c >= '0' && c <= '9':
				d = int(c - '0')
			case c >= 'a' && c <= 'f':
				d = int(c-'a') + 10
			case c >= 'A' && c <= 'F':
				d = int(c-'A') + 10
			default:
				return 0, fmt.Errorf("bad digit %q", c)
			}
			if d >= base {
				return 0, fmt.Errorf("bad digit %q for base %d", c, base)
			}
			if acc > (math.MaxInt64-uint64(d))/uint64(base) {
				return 0, fmt.Errorf("integer literal beyond 63 bits")
			}
			acc = acc*uint64(base) + uint64(d)
		}
		return float64(acc), nil
	}
	return strconv.ParseFloat(s, 64)
}

// ParseStrLit decodes a quoted or raw string literal.
func ParseStrLit(s string) (string, error) {
	if len(s) >= 2 && s[0] == '`' {
		return s[1 : len(s)-1], nil
	}
	return strconv.Unquote(s)
}

var absLayouts = []string{
	"2006-01-02 15:04:05",
	"2006-01-02",
	"2006-01-02T15:04:05Z07:00",
	"2006-01-02T15:04:05",
	"2006-01-02 15:04",
}

// ParseAbsTime reads the absolute date-time forms the reference defines:
// Y-m-d, Y-m-d H:i[:s], ISO-8601 with Z / offset, and @unix. Zone-less forms
// are in UTC (the harness runs with TZ=UTC).
func ParseAbsTime(s string) (int64, bool) {
	if strings.HasPrefix(s, "@") {
		n, err := strconv.ParseInt(s[1:], 10, 64)
		if err != nil || s[1:] != strconv.FormatInt(n, 10) {
			return 0, false
		}
		return n, true
	}
	for _, l := range absLayouts {
		if t, err := time.ParseInLocation(l, s, time.UTC); err == nil {
			if t.Year() < 1971 || t.Year() > 2099 {
				return 0, false
			}
			return t.Unix(), true
		}
	}
	return 0, false
}
