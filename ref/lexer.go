package ref

import (
	"fmt"
	"strings"
	"unicode"
)

// Reference scanner for the documented lexicon (README: "lexicon:
// lexer/factory.go"), hand-written, no regular expressions.
//
// At each position, after skipping white space (Unicode White_Space):
//  1. punctuation  : , ( ) [ ] { }
//  2. the built-in operators . and ? — only when NOT followed by an operator
//     character (so that they are never split out of a longer operator)
//  3. registered operators: the longest symbolic operator that is a prefix of
//     the input; identifier-like operators only as whole words
//  4. true / false as whole words
//  5. numbers, in this order of forms: fraction form (digits, one or more
//     ".digits" groups, optional exponent), exponent form, 0b, 0x, 0o, integer
//  6. strings: "..." with the escapes \" \\ \t \r \n \b \f \/ \uXXXX, or `raw`
//  7. time literals '...'
//  8. identifiers: letter or _ followed by letters, ASCII digits, _
//
// anything else is a syntax error.

type Tok struct {
	Kind   string // ":" "," "(" ")" "[" "]" "{" "}" "." "?" "true" "false" "<num>" "<str>" "<time>" "<sym>" or the operator text
	Lexeme string
	Idx    int // rune offsets
	IdxEnd int
	Line   int
	Col    int
}

const OperatorChars = ":!#$%^&*+./<=>?@\\ˆ|~-"

func isOperatorChar(r rune) bool { return strings.ContainsRune(OperatorChars, r) }

func isIdentStart(r rune) bool {
	return r == '_' || (r >= 'a' && r <= 'z') || (r >= 'A' && r <= 'Z') || unicode.IsLetter(r)
}
func isIdentPart(r rune) bool {
	return isIdentStart(r) || (r >= '0' && r <= '9')
}

// IsIdentLike: an operator spelled like an identifier.
func IsIdentLike(op string) bool {
	rs := []rune(op)
	if len(rs) == 0 || !isIdentStart(rs[0]) {
		return false
	}
	for _, r := range rs[1:] {
		if !isIdentPart(r) {
			return false
		}
	}
	return true
}

type LexError struct {
	Idx int
	Msg string
}

func (e *LexError) Error() string { return fmt.Sprintf("lex error at rune %d: %s", e.Idx, e.Msg) }

func hasPrefixAt(in []rune, i int, s string) (int, bool) {
	rs := []rune(s)
	if i+len(rs) > len(in) {
		return 0, false
	}
	for j, r := range rs {
		if in[i+j] != r {
			return 0, false
		}
	}
	return len(rs), true
}

func wholeWordAt(in []rune, i int, s string) (int, bool) {
	n, ok := hasPrefixAt(in, i, s)
	if !ok {
		return 0, false
	}
	if i+n < len(in) && isIdentPart(in[i+n]) {
		return 0, false
	}
	return n, true
}

func digitsAt(in []rune, i int) int {
	n := 0
	for i+n < len(in) && in[i+n] >= '0' && in[i+n] <= '9' {
		n++
	}
	return n
}

func exponentAt(in []rune, i int) int {
	if i >= len(in) || (in[i] != 'e' && in[i] != 'E') {
		return 0
	}
	j := i + 1
	if j < len(in) && (in[j] == '+' || in[j] == '-') {
		j++
	}
	d := digitsAt(in, j)
	if d == 0 {
		return 0
	}
	return j + d - i
}

func fracAt(in []rune, i int) int {
	if i >= len(in) || in[i] != '.' {
		return 0
	}
	d := digitsAt(in, i+1)
	if d == 0 {
		return 0
	}
	return 1 + d
}

// numberAt returns the length of the number token at i (0 if none).
func numberAt(in []rune, i int) int {
	if i >= len(in) || in[i] < '0' || in[i] > '9' {
		return 0
	}
	ip := 1
	if in[i] != '0' {
		ip = digitsAt(in, i)
	}
	// fraction form
	j := i + ip
	fr := 0
	for {
		f := fracAt(in, j)
		if f == 0 {
			break
		}
		j += f
		fr++
	}
	if fr > 0 {
		return j + exponentAt(in, j) - i
	}
	// exponent form: optional single fraction, one or more exponents
	j = i + ip
	j += fracAt(in, j)
	ex := 0
	for {
		e := exponentAt(in, j)
		if e == 0 {
			break
		}
		j += e
		ex++
	}
	if ex > 0 {
		return j - i
	}
	// radix forms
	if in[i] == '0' && i+1 < len(in) {
		isDigit := func(r rune, radix byte) bool {
			switch radix {
			case 'b':
				return r == '0' || r == '1'
			case 'o':
				return r >= '0' && r <= '7'
			default:
				return (r >= '0' && r <= '9') || (r >= 'a' && r <= 'f') || (r >= 'A' && r <= 'F')
			}
		}
		for _, radix := range []byte{'b', 'x', 'o'} {
			if in[i+1] != rune(radix) || i+2 >= len(in) {
				continue
			}
			if in[i+2] == '0' {
				return 3
			}
			if !isDigit(in[i+2], radix) {
				continue
			}
			n := 0
			for i+2+n < len(in) && isDigit(in[i+2+n], radix) {
				n++
			}
			return 2 + n
		}
	}
	return ip
}

func isHex(r rune) bool {
	return (r >= '0' && r <= '9') || (r >= 'a' && r <= 'f') || (r >= 'A' && r <= 'F')
}

func stringAt(in []rune, i int) int {
	if i >= len(in) {
		return 0
	}
	switch in[i] {
	case '"':
		j := i + 1
		for j < len(in) {
			switch in[j] {
			case '"':
				return j + 1 - i
			case '\\':
				if j+1 >= len(in) {
					return 0
				}
				if strings.ContainsRune(`"\trnbf/`, in[j+1]) {
					j += 2
				} else if in[j+1] == 'u' && j+5 < len(in) && isHex(in[j+2]) && isHex(in[j+3]) && isHex(in[j+4]) && isHex(in[j+5]) {
					j += 6
				} else {
					return 0
				}
			default:
				j++
			}
		}
		return 0
	case '`':
		for j := i + 1; j < len(in); j++ {
			if in[j] == '`' {
				return j + 1 - i
			}
		}
		return 0
	}
	return 0
}

func timeAt(in []rune, i int) int {
	if i >= len(in) || in[i] != '\'' {
		return 0
	}
	for j := i + 1; j < len(in); j++ {
		switch in[j] {
		case '\'':
			return j + 1 - i
		case '`', '"':
			return 0
		}
	}
	return 0
}

// Lex scans the whole input. ops: the registered operator spellings.
func Lex(input string, ops []string) ([]Tok, error) {
	in := []rune(input)
	var toks []Tok
	i, line, col := 0, 0, 0
	adv := func(n int) {
		for k := 0; k < n; k++ {
			if in[i] == '\n' {
				line++
				col = 0
			} else {
				col++
			}
			i++
		}
	}
	for {
		for i < len(in) && unicode.IsSpace(in[i]) {
			adv(1)
		}
		if i >= len(in) {
			return toks, nil
		}
		kind, n := "", 0
		r := in[i]
		switch {
		case strings.ContainsRune(":,()[]{}", r):
			kind, n = string(r), 1
		case (r == '.' || r == '?') && (i+1 >= len(in) || !isOperatorChar(in[i+1])):
			kind, n = string(r), 1
		}
		if n == 0 {
			// registered operators: longest match (bytes), identifier-like as whole words
			best := ""
			for _, op := range ops {
				var okk bool
				if IsIdentLike(op) {
					_, okk = wholeWordAt(in, i, op)
				} else {
					_, okk = hasPrefixAt(in, i, op)
				}
				if okk && len(op) > len(best) {
					best = op
				}
			}
			if best != "" {
				kind, n = best, len([]rune(best))
			}
		}
		if n == 0 {
			if k, okk := wholeWordAt(in, i, "true"); okk {
				kind, n = "true", k
			} else if k, okk := wholeWordAt(in, i, "false"); okk {
				kind, n = "false", k
			}
		}
		if n == 0 {
			if k := numberAt(in, i); k > 0 {
				kind, n = "<num>", k
			} else if k := stringAt(in, i); k > 0 {
				kind, n = "<str>", k
			} else if k := timeAt(in, i); k > 0 {
				kind, n = "<time>", k
			} else if isIdentStart(r) {
				k := 1
				for i+k < len(in) && isIdentPart(in[i+k]) {
					k++
				}
				kind, n = "<sym>", k
			}
		}
		if n == 0 {
			return toks, &LexError{i, fmt.Sprintf("no token matches %q", string(in[i:min(i+8, len(in))]))}
		}
		t := Tok{Kind: kind, Lexeme: string(in[i : i+n]), Idx: i, IdxEnd: i + n, Line: line, Col: col}
		adv(n)
		toks = append(toks, t)
	}
}
