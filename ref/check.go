package ref

import (
	"fmt"

	m "verif/model"
)

// Checker is the reference type checker over core forms.
type Checker struct {
	Env  map[string]*m.Type
	Funs []FunSig // registration order
	// Resolved records, per call node, the index into Funs of the overload
	// the rules select (read by the evaluator and by C05's lock-step check).
	Resolved map[*m.Expr]int
	// Types records the type of every checked node.
	Types map[*m.Expr]*m.Type
	// Stats
	PolyInst      int // polymorphic instantiations
	PolyComposite int // ... at a composite type
	Candidates    int // largest number of candidate overloads among the calls
	BotSkips      int // poly overloads skipped only because of an empty-literal (⊥) argument against a concrete parameter part
}

func NewChecker(env map[string]*m.Type, funs []FunSig) *Checker {
	return &Checker{Env: env, Funs: funs, Resolved: map[*m.Expr]int{}, Types: map[*m.Expr]*m.Type{}}
}

type TypeError struct{ Msg string }

func (e *TypeError) Error() string { return e.Msg }

func terr(format string, a ...interface{}) error { return &TypeError{fmt.Sprintf(format, a...)} }

func (c *Checker) Check(e *m.Expr) (t *m.Type, err error) {
	t, err = c.check(e)
	if err == nil {
		c.Types[e] = t
	}
	return
}

func (c *Checker) check(e *m.Expr) (*m.Type, error) {
	switch e.K {
	case "num":
		return m.Num, nil
	case "str":
		return m.Str, nil
	case "bool":
		return m.Bool, nil
	case "time":
		return m.Time, nil
	case "list":
		if len(e.A) == 0 {
			return m.List(m.Bot), nil
		}
		t0, err := c.Check(e.A[0])
		if err != nil {
			return nil, err
		}
		for _, x := range e.A[1:] {
			t, err := c.Check(x)
			if err != nil {
				return nil, err
			}
			if !m.Equal(t0, t) {
				return nil, terr("list elements %s and %s differ", t0, t)
			}
		}
		return m.List(t0), nil
	case "map":
		if len(e.A) == 0 {
			return m.Map(m.Bot, m.Bot), nil
		}
		k0, err := c.Check(e.A[0])
		if err != nil {
			return nil, err
		}
		if !k0.IsPrim() {
			return nil, terr("map key type %s is not primitive", k0)
		}
		v0, err := c.Check(e.A[1])
		if err != nil {
			return nil, err
		}
		for i := 2; i+1 < len(e.A); i += 2 {
			kt, err := c.Check(e.A[i])
			if err != nil {
				return nil, err
			}
			if !m.Equal(k0, kt) {
				return nil, terr("map keys %s and %s differ", k0, kt)
			}
			vt, err := c.Check(e.A[i+1])
			if err != nil {
				return nil, err
			}
			if !m.Equal(v0, vt) {
				return nil, terr("map values %s and %s differ", v0, vt)
			}
		}
		return m.Map(k0, v0), nil
	case "obj":
		seen := map[string]bool{}
		fs := make([]m.Field, len(e.A))
		for i, x := range e.A {
			t, err := c.Check(x)
			if err != nil {
				return nil, err
			}
			fs[i] = m.Field{Name: e.Keys[i], T: t}
		}
		for _, k := range e.Keys {
			if seen[k] {
				return nil, terr("duplicate field %s", k)
			}
			seen[k] = true
		}
		return m.Obj(fs...), nil
	case "var":
		if Reserved[e.Name] {
			return nil, terr("%s is reserved", e.Name)
		}
		t, ok := c.Env[e.Name]
		if !ok {
			return nil, terr("undefined %s", e.Name)
		}
		return t, nil
	case "member":
		ot, err := c.Check(e.A[0])
		if err != nil {
			return nil, err
		}
		if ot.K != m.TObj {
			return nil, terr("member access on %s", ot)
		}
		i := ot.FieldIndex(e.Name)
		if i < 0 {
			return nil, terr("no field %s in %s", e.Name, ot)
		}
		return ot.F[i].T, nil
	case "index":
		ct, err := c.Check(e.A[0])
		if err != nil {
			return nil, err
		}
		switch ct.K {
		case m.TList:
			it, err := c.Check(e.A[1])
			if err != nil {
				return nil, err
			}
			if it.K != m.TNum {
				return nil, terr("list index of type %s", it)
			}
			return ct.El(), nil
		case m.TMap:
			it, err := c.Check(e.A[1])
			if err != nil {
				return nil, err
			}
			if !m.Equal(it, ct.Key()) {
				return nil, terr("map key of type %s, expected %s", it, ct.Key())
			}
			return ct.Val(), nil
		}
		return nil, terr("subscript on %s", ct)
	case "call":
		args := make([]*m.Type, len(e.A))
		for i, x := range e.A {
			t, err := c.Check(x)
			if err != nil {
				return nil, err
			}
			args[i] = t
		}
		idx, ret, err := c.Resolve(e.Name, args)
		if err != nil {
			return nil, err
		}
		c.Resolved[e] = idx
		return ret, nil
	case "dcall":
		// arguments are checked before the callee (the observable order of errors
		// is not part of the property; the verdict is)
		args := make([]*m.Type, len(e.A)-1)
		for i, x := range e.A[1:] {
			t, err := c.Check(x)
			if err != nil {
				return nil, err
			}
			args[i] = t
		}
		ft, err := c.Check(e.A[0])
		if err != nil {
			return nil, err
		}
		if ft.K != m.TFun {
			return nil, terr("call of non-function %s", ft)
		}
		ps := ft.Params()
		if len(ps) != len(args) {
			return nil, terr("arity %d vs %d", len(ps), len(args))
		}
		for i := range ps {
			if !m.Equal(ps[i], args[i]) {
				return nil, terr("argument %d: %s vs %s", i, ps[i], args[i])
			}
		}
		return ft.Ret(), nil
	}
	return nil, terr("unknown node kind %s", e.K)
}

// matchStrict: instantiate the variables of pattern p so that it becomes
// equal to the variable-free argument type g. ⊥ (inside the type of an empty
// literal) is an ordinary type constant here: it equals only itself, or
// instantiates a variable.
func matchStrict(p, g *m.Type, b map[string]*m.Type) bool {
	if p.K == m.TVar {
		if old, ok := b[p.N]; ok {
			return m.Equal(old, g)
		}
		b[p.N] = g
		return true
	}
	if p.K != g.K {
		return false
	}
	if p.K == m.TObj {
		if len(p.F) != len(g.F) {
			return false
		}
		for _, pf := range p.F {
			i := g.FieldIndex(pf.Name)
			if i < 0 || !matchStrict(pf.T, g.F[i].T, b) {
				return false
			}
		}
		return true
	}
	if len(p.A) != len(g.A) {
		return false
	}
	for i := range p.A {
		if !matchStrict(p.A[i], g.A[i], b) {
			return false
		}
	}
	return true
}

// matchLenient is matchStrict except that ⊥ in the argument also matches any
// concrete pattern part (what a unifier that treats ⊥ as bottom would do).
func matchLenient(p, g *m.Type, b map[string]*m.Type) bool {
	if p.K == m.TVar {
		if old, ok := b[p.N]; ok {
			return m.Equal(old, g)
		}
		b[p.N] = g
		return true
	}
	if g.K == m.TBot {
		return true
	}
	if p.K != g.K {
		return false
	}
	if p.K == m.TObj {
		if len(p.F) != len(g.F) {
			return false
		}
		for _, pf := range p.F {
			i := g.FieldIndex(pf.Name)
			if i < 0 || !matchLenient(pf.T, g.F[i].T, b) {
				return false
			}
		}
		return true
	}
	if len(p.A) != len(g.A) {
		return false
	}
	for i := range p.A {
		if !matchLenient(p.A[i], g.A[i], b) {
			return false
		}
	}
	return true
}

// Resolve applies the overload rule: an exactly matching monomorphic overload
// first; otherwise the first registered polymorphic overload (same name and
// arity) whose parameters can be instantiated to the argument types with a
// fully concrete result.
func (c *Checker) Resolve(name string, args []*m.Type) (int, *m.Type, error) {
	cands := 0
	mono := -1
	for i, f := range c.Funs {
		if f.Name != name {
			continue
		}
		cands++
		if !f.Mono() || len(f.Params) != len(args) {
			continue
		}
		same := true
		for j := range args {
			if !m.Equal(f.Params[j], args[j]) {
				same = false
				break
			}
		}
		if same {
			mono = i // a later registration of the same signature replaces the earlier
		}
	}
	if cands > c.Candidates {
		c.Candidates = cands
	}
	if mono >= 0 {
		return mono, c.Funs[mono].Ret, nil
	}
	for i, f := range c.Funs {
		if f.Name != name || f.Mono() || len(f.Params) != len(args) {
			continue
		}
		b := map[string]*m.Type{}
		if !matchStrict(m.Tuple(f.Params...), m.Tuple(args...), b) {
			if matchLenient(m.Tuple(f.Params...), m.Tuple(args...), map[string]*m.Type{}) {
				c.BotSkips++
			}
			continue
		}
		ret := f.Ret.Subst1(b)
		if !ret.Ground() {
			continue
		}
		c.PolyInst++
		for _, t := range b {
			if !t.IsPrim() {
				c.PolyComposite++
				break
			}
		}
		return i, ret, nil
	}
	return -1, nil, terr("no overload of %s for %s", name, m.Tuple(args...))
}
