// Package ref holds the reference implementations (the oracles). They are
// written from the README, the property statements and the documented
// lexicon / grammar / operator tables, and share no code with /repo.
package ref

import "verif/model"

// Desugar rewrites notation to core forms:
//
//	op x, x op        -> call op(x)
//	x op y            -> call op(x, y)
//	c ? a : b         -> call if(c, a, b)
//	o.f(args)         -> call f(o, args)
//	(e)               -> e
//	callee(args) where callee (after removing parentheses) is an identifier
//	                  -> call name(args); otherwise dcall
//
// The input is not modified.
func Desugar(e *model.Expr) *model.Expr {
	d := desugar(e)
	if e.K != "group" {
		// the core node stands where the notation stood: keep its span and the
		// position of its own token (operator, '(' of a call, '.', '[', identifier)
		d.Start, d.End, d.Own, d.Line, d.Col = e.Start, e.End, e.Own, e.Line, e.Col
	}
	return d
}

func desugar(e *model.Expr) *model.Expr {
	switch e.K {
	case "num", "str", "time", "bool":
		return &model.Expr{K: e.K, Text: e.Text}
	case "var":
		return model.V(e.Name)
	case "group":
		return Desugar(e.A[0])
	case "prefix", "postfix":
		return model.Call(e.Name, Desugar(e.A[0]))
	case "infix":
		return model.Call(e.Name, Desugar(e.A[0]), Desugar(e.A[1]))
	case "tern":
		return model.Call("if", Desugar(e.A[0]), Desugar(e.A[1]), Desugar(e.A[2]))
	case "mcall":
		return model.Call(e.Name, desugarAll(e.A)...)
	case "call":
		return model.Call(e.Name, desugarAll(e.A)...)
	case "dcall":
		callee := Desugar(e.A[0])
		args := desugarAll(e.A[1:])
		if callee.K == "var" {
			return model.Call(callee.Name, args...)
		}
		return model.DCall(callee, args...)
	case "list", "map", "index":
		return &model.Expr{K: e.K, A: desugarAll(e.A)}
	case "obj":
		return &model.Expr{K: e.K, Keys: append([]string(nil), e.Keys...), A: desugarAll(e.A)}
	case "member":
		return model.Member(Desugar(e.A[0]), e.Name)
	}
	panic("ref.Desugar: unknown kind " + e.K)
}

func desugarAll(xs []*model.Expr) []*model.Expr {
	out := make([]*model.Expr, len(xs))
	for i, x := range xs {
		out[i] = Desugar(x)
	}
	return out
}

// IsCore reports whether the tree contains only core node kinds.
func IsCore(e *model.Expr) bool {
	core := true
	e.Walk(func(x *model.Expr) {
		switch x.K {
		case "num", "str", "time", "bool", "var", "list", "map", "obj", "member", "index", "call", "dcall":
		default:
			core = false
		}
	})
	return core
}
