#!/usr/bin/env python3
"""usage: seed_prompt.py <ID> <worktree> [round]  -> prints the prompt given to an independent sub-agent
(only the property text and the worktree; the names of earlier seeded changes are listed so that a new
mechanism is chosen, nothing about what the checks can detect)."""
import sys, json, os
pid, wt = sys.argv[1], sys.argv[2]
p = [json.loads(l) for l in open('/verif/properties.jsonl') if json.loads(l)['id'] == pid][0]
earlier = sorted(d for d in os.listdir('/verif/seeded') if ('-' + pid + '-') in ('-' + d) )
earlier = [d.split(pid + '-', 1)[1].replace('-', ' ') for d in earlier]
print(f"""You are working on a scratch git worktree of the Go project goghcrow/yae at {wt} (module github.com/goghcrow/yae): a small statically typed expression language with a regex lexer (parser/), Pratt parser, desugarer (trans/), unification-based type checker (types/), host-data conversion (conv/), and three back ends: bytecode VM (vm/), closure compiler (closure/), AST interpreter (interp/); facade.go is the public API; debug/ is power-assert evaluation; ext/sql generates SQL from criteria. Work ONLY inside {wt}. Do not read, list or modify /repo or /verif or any other /tmp/r3-* directory.

Every shell call needs: export GOFLAGS=-mod=mod GOPROXY=off GOSUMDB=off GOTOOLCHAIN=local CGO_ENABLED=1 TZ=UTC   (no network). The existing test suite is: cd {wt} && go test -vet=off -count=1 ./...   (about 20 s, all must pass). Running the suite regenerates vm/callthread.go from vm/switchthread.go (vm/gen_test.go) and fun/gen.go; if you edit vm/switchthread.go, run the suite and include the regenerated vm/callthread.go in your patch.

The project is supposed to satisfy this semantic property:

  {p['title']}
  {p['statement']}

YOUR TASK: produce a change to the project's NON-TEST source that
 (1) breaks this property,
 (2) still compiles, and the existing test suite, unedited, still passes with it,
 (3) is realistic: something a maintainer could plausibly introduce (an optimisation, a cache, a refactoring, a fast path, an off-by-one at a boundary, a "simplification"), not sabotage behind a magic constant,
 (4) needs something SPECIFIC to manifest - a particular multi-step sequence of operations, an unusual input shape or boundary, a particular interleaving, or two cooperating sites that each look fine alone - so that ordinary use and simple examples do not expose it at once.
Earlier changes made for this property used these mechanisms: {', '.join(earlier) if earlier else 'none'}. Choose a DIFFERENT mechanism in a DIFFERENT part of the code / part of the property's statement. Read the code the property depends on first, and prefer a part of the statement that looks least likely to have been exercised.

Deliverables, all under {wt}/SEED/ :
  - patch.diff : `git diff` (against HEAD) of the non-test source files only (no test files, no SEED files).
  - seed_demo_test.go : a Go test file `package test` (it will be copied to {wt}/test/seed_demo_test.go), test function names starting with TestSeed, using only the project's public packages, that FAILS with the change and PASSES without it, demonstrating the violation of the property (not an implementation detail).
  - notes.md : what was changed, which clause of the property breaks, exactly what is needed to manifest, what is NOT affected.
Verify yourself: with the patch applied the suite passes and the demo fails; with `git apply -R SEED/patch.diff` the demo passes. Leave the worktree with the patch applied and the demo at test/seed_demo_test.go. Keep the change small (typically < 40 lines). In your final message give a 5-line summary: files changed, mechanism, what is needed to manifest.""")
