#!/usr/bin/env bash
# usage: tools/seed_try.sh <patch.diff> <ID> [<ID>...]
# Applies the patch to a scratch CLONE of /repo (under /var/tmp, removed afterwards) and runs the
# quick checks of a copy of /verif against it, so that /repo itself is never touched and other
# runs that build from /repo at the same time are not disturbed. INPLACE=1 applies the patch to
# /repo itself instead (git -C /repo apply; checks; git -C /repo checkout -- .).
set -u
P=$(readlink -f "$1"); shift
V=$(cd "$(dirname "$(readlink -f "$0")")/.." && pwd)
if [ "${INPLACE:-0}" = 1 ]; then
  cd /repo; git diff --quiet || { echo "repo dirty"; exit 3; }
  git apply "$P" || { echo "patch does not apply to /repo"; exit 3; }
  W=""; cd "$V"
else
  W=/var/tmp/seedtry.$$; mkdir -p $W
  git clone -q /repo $W/repo
  ( cd $W/repo && git apply "$P" ) || { echo "patch does not apply to /repo HEAD"; rm -rf $W; exit 3; }
  # the COMMITTED state of /verif (edits in progress do not leak into the trial); WORKTREE=1 copies the working tree instead
  if [ "${WORKTREE:-0}" = 1 ]; then cp -r "$V" $W/verif; rm -rf $W/verif/.git $W/verif/work $W/verif/bin $W/verif/replay
  else mkdir -p $W/verif; git -C "$V" archive HEAD | tar -x -C $W/verif; fi
  sed -i "s|=> /repo|=> $W/repo|" $W/verif/go.mod
  cd $W/verif
fi
for id in "$@"; do
  out=$(VERIF_SEED=${VERIF_SEED:-1} ./check "$id" quick 2>&1 | grep -v '^KNOWN' | tail -3)
  if echo "$out" | grep -q '^VIOLATION'; then
    echo "$id: CAUGHT  $(echo "$out" | grep -m1 VIOLATION)"
    rp=$(echo "$out" | grep -m1 VIOLATION | sed 's/.*replay=//')
    [ -f "$rp" ] && python3 -c "import json,sys;d=json.load(open('$rp'));print('   ',str(d.get('error',d.get('err','')))[:400])" 2>/dev/null
  else echo "$id: missed  ($(echo "$out" | tail -1 | cut -c1-120))"; fi
done
if [ -z "$W" ]; then git -C /repo checkout -- . ; git -C /repo clean -fdq; git -C /repo status --short; else rm -rf $W; fi
