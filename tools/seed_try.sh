#!/usr/bin/env bash
# usage: tools/seed_try.sh <patch.diff> <ID> [<ID>...]   apply the patch to /repo, run the quick checks, undo.
set -u
P=$(readlink -f "$1"); shift
cd /repo; git diff --quiet || { echo "repo dirty"; exit 3; }
git apply "$P" || { echo "patch does not apply to /repo"; exit 3; }
cd /verif
for id in "$@"; do
  out=$(./check "$id" quick 2>&1 | grep -v '^KNOWN' | tail -3)
  if echo "$out" | grep -q '^VIOLATION'; then echo "$id: CAUGHT  $(echo "$out" | grep -m1 VIOLATION)"; else echo "$id: missed  ($(echo "$out" | tail -1 | cut -c1-120))"; fi
done
git -C /repo checkout -- . ; git -C /repo clean -fdq
git -C /repo status --short
