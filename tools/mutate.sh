#!/usr/bin/env bash
# usage: tools/mutate.sh <file-in-repo> <python-regex-old> <new> -- <check args...>
# Applies a one-off textual mutation to /repo, runs ./check, and restores /repo.
set -u
f=$1; old=$2; new=$3; shift 4
cd /repo
git diff --quiet || { echo "repo dirty"; exit 3; }
python3 - "$f" "$old" "$new" <<'PY'
import sys,re
p,old,new=sys.argv[1:4]
s=open(p).read()
n=len(re.findall(old,s))
if n==0: print("MUTATION DID NOT APPLY"); sys.exit(1)
s=re.sub(old,new,s,count=1)
open(p,'w').write(s)
PY
[ $? = 0 ] || exit 3
if [[ "$f" == vm/switchthread.go ]]; then (export GOFLAGS=-mod=mod GOPROXY=off; go test -count=1 -run TestGenCallThreadingBySwitch ./vm >/dev/null 2>&1); fi
go build ./... || { git checkout -- .; echo "MUTANT DOES NOT BUILD"; exit 3; }
cd /verif
./check "$@"; rc=$?
git -C /repo checkout -- .
echo "mutant rc=$rc"
