#!/usr/bin/env bash
# usage: tools/mutate_clone.sh <file-in-repo> <python-regex-old> <new> <ID> [<ID>...]
# Like tools/mutate.sh, but on a scratch CLONE of /repo (removed afterwards) with the committed
# /verif, so that /repo is never touched.
set -u
f=$1; old=$2; new=$3; shift 3
V=$(cd "$(dirname "$(readlink -f "$0")")/.." && pwd)
W=/var/tmp/mutclone.$$; mkdir -p $W
git clone -q /repo $W/repo
( cd $W/repo && python3 - "$f" "$old" "$new" <<'PY'
import sys,re
p,old,new=sys.argv[1:4]
s=open(p).read()
if not re.search(old,s): print("MUTATION DID NOT APPLY"); sys.exit(1)
open(p,'w').write(re.sub(old,new,s,count=1))
PY
) || { rm -rf $W; exit 3; }
export GOFLAGS=-mod=mod GOPROXY=off GOSUMDB=off GOTOOLCHAIN=local CGO_ENABLED=1 TZ=UTC
if [[ "$f" == vm/switchthread.go ]]; then (cd $W/repo && go test -count=1 -run TestGenCallThreadingBySwitch ./vm >/dev/null 2>&1); fi
( cd $W/repo && go build ./... ) || { echo "MUTANT DOES NOT BUILD"; rm -rf $W; exit 3; }
if [ "${SUITE:-0}" = 1 ]; then ( cd $W/repo && go test -vet=off -count=1 ./... >/dev/null 2>&1 && echo "suite: PASS" || echo "suite: FAIL" ); fi
mkdir -p $W/verif; git -C "$V" archive HEAD | tar -x -C $W/verif
sed -i "s|=> /repo|=> $W/repo|" $W/verif/go.mod
cd $W/verif
for id in "$@"; do
  out=$(VERIF_SEED=${VERIF_SEED:-1} ./check "$id" quick 2>&1 | grep -v '^KNOWN' | tail -3)
  if echo "$out" | grep -q '^VIOLATION'; then echo "$id: KILLED  $(echo "$out" | grep -m1 -A1 VIOLATION | tail -1 | cut -c1-300)"; else echo "$id: survived  ($(echo "$out" | tail -1 | cut -c1-120))"; fi
done
rm -rf $W
