#!/usr/bin/env python3
"""Regenerate MANIFEST.json from tools/manifest_src.json (claimed checks) and properties.jsonl."""
import json
props=[json.loads(l) for l in open('/verif/properties.jsonl')]
src=json.load(open('/verif/tools/manifest_src.json'))
claimed=src["checks"]
checks=[]
for p in props:
    pid=p["id"]
    if pid not in claimed: continue
    c=claimed[pid]
    checks.append({
      "property_id":pid,
      "quick_cmd":"./check %s quick"%pid,
      "thorough_cmd":"./check %s thorough"%pid,
      "evidence_file":"/verif/evidence/%s.json"%pid,
      "replay_cmd_template":"./check %s --replay {path}"%pid,
      "engine":"props",
      "level_claimed":{"category":c.get("category","exploration"),"text":c["text"],"design_ref":"DESIGN.md section 4 (%s)"%pid},
      "level_note":c["note"],
      "technique":c["technique"],
    })
m={
 "version":1,
 "setup_cmd":"./setup.sh",
 "hooks":{"guard":"verif","enable":"harness test binaries are built with `go test -c -tags verif ./props`; the harness module replaces github.com/goghcrow/yae => /repo, so every check rebuilds from /repo's working tree",
          "baseline_off_cmd":"cd /repo && go test -vet=off -count=1 ./...",
          "source_commits":src["hook_commits"],"add_only":True},
 "engines":[{"name":"props","path":"/verif/props","serves_properties":sorted(claimed.keys()),
   "kind_free_text":"one Go test binary per property built from /verif/props: rapid v1.3.0 properties, bounded exhaustive enumerations, Go native fuzz targets (thorough), all against explicit oracles in /verif/ref (reference lexer / parser / checker / evaluator / bytecode verifier / SQL reader); driver ./check shards, maps process death to a replayable breadcrumb, merges evidence"}],
 "checks":checks,
 "not_applicable":[{"property_id":p["id"],"reason":src["not_applicable"].get(p["id"],"check not built yet (in progress; plan in DESIGN.md section 4)")} for p in props if p["id"] not in claimed],
 "notes":src.get("notes","")
}
json.dump(m,open('/verif/MANIFEST.json','w'),indent=1,ensure_ascii=False)
print("claimed:",len(checks),"not claimed:",len(m["not_applicable"]))
