#!/usr/bin/env bash
# usage: tools/run_all.sh [tier] [VERIF_SEED ...]   run every claimed check and print one line each
cd "$(dirname "$(readlink -f "$0")")/.."
TIER=${1:-quick}; shift || true
SEEDS=${*:-1}
for s in $SEEDS; do
  for id in $(python3 -c "import json;print(' '.join(c['property_id'] for c in json.load(open('MANIFEST.json'))['checks']))"); do
    out=$(VERIF_SEED=$s ./check $id $TIER 2>&1); rc=$?
    echo "seed=$s $id rc=$rc $(echo "$out" | grep -v '^KNOWN' | tail -1 | cut -c1-140)"
  done
done
