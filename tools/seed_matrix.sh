#!/usr/bin/env bash
# usage: tools/seed_matrix.sh [own|all] [seed numbers...]
# Re-runs every seeded change in /verif/seeded against the checks, on a COPY of the repository
# (REPO env, default: a fresh clone under /var/tmp), so that /repo itself is never touched.
# Prints one line per (seeded change, check, VERIF_SEED): CAUGHT / missed / inconclusive.
set -u
MODE=${1:-own}; shift || true
SEEDS=${*:-1}
V=$(cd "$(dirname "$(readlink -f "$0")")/.." && pwd)
SRC=${REPO_SRC:-/repo}
W=/var/tmp/seedmatrix.$$; mkdir -p $W
git clone -q "$SRC" $W/repo
cp -r "$V" $W/verif; rm -rf $W/verif/.git $W/verif/work $W/verif/bin $W/verif/replay
sed -i "s|=> /repo|=> $W/repo|" $W/verif/go.mod
cd $W/verif
for d in "$V"/seeded/*/; do
  name=$(basename "$d"); own=$(python3 -c "import json;print(json.load(open('$d/meta.json'))['property'])")
  ( cd $W/repo && git checkout -q -- . && git apply "$d/patch.diff" ) || { echo "$name: patch does not apply"; continue; }
  if [ "$MODE" = all ]; then ids=$(python3 -c "import json;print(' '.join(c['property_id'] for c in json.load(open('MANIFEST.json'))['checks']))"); else ids=$own; fi
  for id in $ids; do for s in $SEEDS; do
    out=$(VERIF_SEED=$s ./check "$id" quick 2>&1 | grep -v '^KNOWN'); 
    if echo "$out" | grep -q '^VIOLATION'; then r=CAUGHT; elif echo "$out" | grep -q '^ok '; then r=missed; else r=inconclusive; fi
    echo "$name $id seed=$s $r"
  done; done
done
rm -rf $W
