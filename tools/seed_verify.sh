#!/usr/bin/env bash
# usage: tools/seed_verify.sh <ID>     (worktree /tmp/seed-<ID> with SEED/patch.diff and test/seed_demo_test.go)
# Confirms, in the scratch worktree: (1) the patch is what is applied, (2) the pinned suite passes with it,
# (3) the demonstration fails with it and (4) passes without it.
set -u
ID=$1; W=/tmp/seed-$ID
export GOFLAGS=-mod=mod GOPROXY=off GOSUMDB=off GOTOOLCHAIN=local CGO_ENABLED=1 TZ=UTC
cd $W || exit 2
[ -s SEED/patch.diff ] || { echo "no patch"; exit 2; }
demo=test/seed_demo_test.go
[ -f $demo ] || cp SEED/seed_demo_test.go $demo
mkdir -p /var/tmp/seedtmp.$ID; mv $demo /var/tmp/seedtmp.$ID/demo.go
git checkout -q -- . ; git clean -fdq -e SEED
git apply SEED/patch.diff || { echo "PATCH DOES NOT APPLY"; exit 2; }
go build ./... || { echo "DOES NOT BUILD"; exit 2; }
if go test -vet=off -count=1 $(go list ./... | grep -v /SEED) >/var/tmp/seedtmp.$ID/suite.log 2>&1; then echo "suite with change: PASS"; else echo "suite with change: FAIL"; tail -20 /var/tmp/seedtmp.$ID/suite.log; fi
git status --short | grep -v SEED
cp /var/tmp/seedtmp.$ID/demo.go $demo
if go test -vet=off -count=1 ./test -run 'Seed' >/var/tmp/seedtmp.$ID/demo_with.log 2>&1; then echo "demo with change: PASS (unexpected)"; else echo "demo with change: FAIL (expected)"; fi
git apply -R SEED/patch.diff
if go test -vet=off -count=1 ./test -run 'Seed' >/var/tmp/seedtmp.$ID/demo_without.log 2>&1; then echo "demo without change: PASS (expected)"; else echo "demo without change: FAIL (unexpected)"; tail -20 /var/tmp/seedtmp.$ID/demo_without.log; fi
git apply SEED/patch.diff
rm -rf /var/tmp/seedtmp.$ID
