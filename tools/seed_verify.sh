#!/usr/bin/env bash
# usage: tools/seed_verify.sh <ID> [extra go test flags]   (worktree /tmp/seed-<ID> with SEED/patch.diff and a seed_demo_test.go somewhere in the tree)
# Confirms, in the scratch worktree: the patch applies, the pinned suite passes with it,
# the demonstration fails with it and passes without it.
set -u
ID=$1; shift; W=${SEEDDIR:-/tmp/seed-$ID}
export GOFLAGS=-mod=mod GOPROXY=off GOSUMDB=off GOTOOLCHAIN=local CGO_ENABLED=1 TZ=UTC
cd $W || exit 2
[ -s SEED/patch.diff ] || { echo "no patch"; exit 2; }
demo=$(git status --short | grep -o '[a-z/]*seed_demo_test.go' | grep -v SEED | head -1)
[ -n "$demo" ] || { demo=test/seed_demo_test.go; cp SEED/seed_demo_test.go $demo; }
ddir=./$(dirname $demo)
T=/var/tmp/seedtmp.$ID; mkdir -p $T; mv $demo $T/demo.go
git checkout -q -- .
git apply SEED/patch.diff || { echo "PATCH DOES NOT APPLY"; exit 2; }
go build ./... || { echo "DOES NOT BUILD"; exit 2; }
if go test -vet=off -count=1 $(go list ./... | grep -v /SEED) >$T/suite.log 2>&1; then echo "suite with change: PASS"; else echo "suite with change: FAIL"; tail -20 $T/suite.log; fi
git status --short | grep -v SEED
cp $T/demo.go $demo
if timeout 600 go test -vet=off -count=1 "$@" -run 'Seed' $ddir >$T/with.log 2>&1; then echo "demo with change: PASS (unexpected)"; else echo "demo with change: FAIL (expected)"; fi
git apply -R SEED/patch.diff
if timeout 600 go test -vet=off -count=1 "$@" -run 'Seed' $ddir >$T/without.log 2>&1; then echo "demo without change: PASS (expected)"; else echo "demo without change: FAIL (unexpected)"; tail -20 $T/without.log; fi
git apply SEED/patch.diff
rm -rf $T
