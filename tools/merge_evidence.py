#!/usr/bin/env python3
"""Merge the per-shard parts written by the test binaries into evidence/<ID>.json.

usage: merge_evidence.py <ID> <tier> <seed> <parts_dir> <out_file> <wall_s> <violations> [<known_findings_reported>]
Counts are summed; distinct_nontrivial is the size of the union of the shards'
hash sets (exact, not a sum); samples are concatenated (first few per shard).
"""
import json, sys, glob, os, struct

def main():
    pid, tier, seed, parts_dir, out, wall, viol = sys.argv[1:8]
    known = sys.argv[8:] if len(sys.argv) > 8 else []
    parts = sorted(glob.glob(os.path.join(parts_dir, pid + ".*.json")))
    evals = 0; nontriv = 0; classes = {}; excluded = {}; samples = []; exhaustive = {}; extra = {}
    hashes = set(); rule = ""; level = "exploration"; assume = []
    for p in parts:
        with open(p) as f:
            d = json.load(f)
        evals += d["evaluations"]; nontriv += d["nontrivial_total"]
        for k, v in (d.get("classes") or {}).items():
            classes[k] = classes.get(k, 0) + v
        for k, v in (d.get("excluded_known") or {}).items():
            excluded[k] = excluded.get(k, 0) + v
        for k, v in (d.get("exhaustive_scopes") or {}).items():
            exhaustive[k] = exhaustive.get(k, True) and v
        for k, v in (d.get("extra") or {}).items():
            if isinstance(v, (int, float)) and isinstance(extra.get(k), (int, float)):
                extra[k] = extra[k] + v
            else:
                extra.setdefault(k, v)
        samples.extend((d.get("samples") or [])[: max(2, 12 // max(1, len(parts)))])
        rule = d.get("rule") or rule
        level = d.get("level") or level
        assume = d.get("assumptions") or assume
        hf = d.get("hash_file")
        if hf and os.path.exists(hf):
            with open(hf, "rb") as f:
                b = f.read()
            hashes.update(struct.unpack("<%dQ" % (len(b) // 8), b))
    cov = {
        "evaluations": evals,
        "distinct_nontrivial": len(hashes),
        "nontrivial_total": nontriv,
        "rule": rule,
        "samples": samples[:16],
        "classes": dict(sorted(classes.items())),
        "excluded_known": excluded,
        "shards": len(parts),
        "exhaustive_scopes": exhaustive,
        "exhaustive": bool(exhaustive) and all(exhaustive.values()) and evals > 0 and not any(k.endswith(":random") and v for k, v in classes.items()),
    }
    cov.update(extra)
    if os.environ.get("VERIF_EXTRA"):
        try:
            cov.update(json.loads(os.environ["VERIF_EXTRA"]))
        except Exception:
            pass
    ev = {
        "property_id": pid,
        "tier": tier,
        "seed": int(seed),
        "level": level,
        "coverage": cov,
        "assumptions": assume,
        "wall_s": float(wall),
        "violations": int(viol),
        "known_findings_reported": known,
    }
    os.makedirs(os.path.dirname(out), exist_ok=True)
    tmp = out + ".tmp"
    with open(tmp, "w") as f:
        json.dump(ev, f, indent=1, ensure_ascii=False)
    os.replace(tmp, out)

if __name__ == "__main__":
    main()
