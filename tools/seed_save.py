#!/usr/bin/env python3
"""usage: seed_save.py <name> <property> <worktree> '<needs>' '<caught_by json>'

Copies a verified seeded change (patch.diff, demonstration, notes) from a
scratch worktree into /verif/seeded/<name>/ and writes meta.json."""
import sys, os, shutil, json

name, prop, wt, needs, caught = sys.argv[1:6]
d = '/verif/seeded/' + name
os.makedirs(d, exist_ok=True)
shutil.copy(wt + '/SEED/patch.diff', d + '/patch.diff')
shutil.copy(wt + '/SEED/seed_demo_test.go', d + '/seed_demo_test.go.txt')
if os.path.exists(wt + '/SEED/notes.md'):
    shutil.copy(wt + '/SEED/notes.md', d + '/notes.md')
meta = {
    "property": prop,
    "breaks": "see notes.md",
    "needs_to_manifest": needs,
    "origin": "independent sub-agent given only the property text and a scratch worktree of /repo",
    "demonstration": "seed_demo_test.go.txt (copy it to <repo>/test/seed_demo_test.go; kept with a .txt suffix so that the harness module does not try to build it)",
    "confirmed": {
        "how": "tools/seed_verify.sh in the scratch worktree: the patch applies to /repo HEAD; the pinned suite (go test -vet=off -count=1 ./...) passes with the change; the demonstration fails with the change and passes without it",
        "suite_with_change": "pass", "demo_with_change": "fail", "demo_without_change": "pass"},
    "checks_run": "tools/seed_try.sh <patch> <IDs>: git -C /repo apply <patch>; ./check <ID> quick; git -C /repo checkout -- .",
    "caught_by": json.loads(caught),
}
json.dump(meta, open(d + '/meta.json', 'w'), indent=1)
print("saved", d)
